"""C07 - strict_coercion only narrows the accepted inputs.  Model: coq/Model/Load.v, theorems: coq/Props/C07.v.
Every case is run pairwise under strict and lax coercion (all three debug modes) on the library and on the model;
a direct oracle checks on the library that strict acceptance implies lax acceptance (equal value when the type has no
union) and that a strictly accepted datum has a documented 'allowed strict origin'."""
import random

import lib
import loadgen as lg

PID = "C07"


def union_free(t):
    k = t[0]
    if k == "TUnion":
        return False
    if k in ("TIter", "TOpt"):
        return union_free(t[2] if k == "TIter" else t[1])
    if k == "TDict":
        return union_free(t[1]) and union_free(t[2])
    if k == "TTuple":
        return all(union_free(x) for x in t[1])
    return True


def strict_origin_ok(t, v):
    """documented allowed strict origins, for a datum the strict loader accepted (top level only)"""
    k, vk = t[0], v[0]
    if k == "TInt":
        return vk == "VInt"
    if k == "TFloat":
        return vk in ("VFloat", "VInt")
    if k == "TStr":
        return vk == "VStr"
    if k == "TBool":
        return vk == "VBool"
    if k == "TNone":
        return vk == "VNone"
    if k in ("TIter", "TTuple"):
        return vk not in ("VStr", "VDict", "VNone", "VInt", "VBool", "VFloat", "VObj")
    if k == "TDict":
        return vk == "VDict"
    if k == "TLit":
        if vk == "VBool":
            return ("LBool", v[1]) in [tuple(l) for l in t[1]] or not any(
                l[0] == "LBool" or (l[0] == "LInt" and l[1] in (0, 1)) for l in t[1])
        if vk == "VInt" and v[1] in (0, 1):
            return ("LInt", v[1]) in [tuple(l) for l in t[1]] or not any(
                l[0] == "LBool" or (l[0] == "LInt" and l[1] in (0, 1)) for l in t[1])
        return True
    return True


def sub_positions(t, v):
    """(type, datum) pairs reached by the strict loader below an accepted datum (used for the origin oracle)"""
    yield t, v
    k = t[0]
    if k == "TIter" and v[0] in ("VList", "VTuple", "VSet", "VFrozenSet"):
        for x in v[1]:
            yield from sub_positions(t[2], x)
    elif k == "TTuple" and v[0] in ("VList", "VTuple") and len(v[1]) == len(t[1]):
        for tt, x in zip(t[1], v[1]):
            yield from sub_positions(tt, x)
    elif k == "TDict" and v[0] == "VDict":
        for a, b in v[1]:
            yield from sub_positions(t[1], a)
            yield from sub_positions(t[2], b)
    elif k == "TOpt" and v[0] != "VNone":
        yield from sub_positions(t[1], v)


def exotic_oracle(rep, types):
    """data outside the model's value type (instances of subclasses of the builtin data types, views, one-shot iterables):
    strict acceptance implies lax acceptance with an equal value (union-free types), and a scalar target (int, float, str,
    bool, None) accepts under strict coercion only instances of exactly the documented types"""
    import re
    rts = {(sc, m): lg.retort(sc, m) for sc in (True, False) for m in lg.MODES}
    exo = lg.exotic_values()
    n = 0
    reported = set()
    exact = {"TInt": (int,), "TFloat": (float, int), "TStr": (str,), "TBool": (bool,), "TNone": (type(None),)}
    for t in types:
        if "TUser" in repr(t):
            continue
        in_union = "TUnion" in repr(t)
        for name, make in exo:
            if in_union and name in lg.ONE_SHOT:
                continue            # a union case that fails has already consumed (part of) a one-shot iterable: not a value
            for m in lg.MODES:
                s = lg.run_exotic(rts[(True, m)], t, make)
                l = lg.run_exotic(rts[(False, m)], t, make)
                n += 2
                bad = None
                if s[0] == "ok" and l[0] != "ok":
                    bad = "accepted with strict_coercion=True but rejected with strict_coercion=False"
                elif s[0] == "ok" and union_free(t):
                    canon = [re.sub(r"( at )?0x[0-9a-f]+", "", repr(o[1])) + "|" + type(o[1]).__name__ for o in (s, l)]
                    if canon[0] != canon[1]:
                        bad = "strict and lax coercion load the same datum to different values (no union involved)"
                if s[0] == "ok" and t[0] in exact and type(make()) not in exact[t[0]]:
                    bad = f"strict mode accepted an instance of {type(make()).__name__} for {t[0][1:].lower()}: outside the allowed strict origins"
                sig = f"exotic:{t[0]}:{name.split(':')[0]}"
                if bad and sig not in reported and len(reported) < 8:
                    reported.add(sig)
                    rep.violation(sig, "property-violated",
                                  {"what": bad, "type": t, "py_type": repr(lg.py_ty(t)), "datum": name, "datum_repr": repr(make())[:120],
                                   "mode": m, "strict": repr(s)[:200], "lax": repr(l)[:200]})
    return n


def run(rep, tier, seed):
    proof = lib.proof_stage(rep, PID)
    r = random.Random(seed)
    tg, vg = lg.TyGen(r), lg.ValGen(r, junk_rate=0.25)
    n_types = 220 if tier == "quick" else 4000
    base = []
    for _ in range(n_types):
        t = tg.ty(r.choice([0, 1, 2, 2, 3]))
        for _ in range(7):
            base.append((t, vg.value(t, sc=r.random() < 0.5)))
    # directed: Literal look-alikes and Any-element iterables (places where strictness hides)
    for ls in ([("LInt", 1), ("LBool", False)], [("LInt", 0), ("LBool", True), ("LStr", "x")], [("LInt", 1), ("LInt", 2)],
               [("LBool", True)], [("LInt", 0), ("LInt", 1), ("LInt", 2), ("LInt", 7), ("LBool", False)]):
        for v in (("VBool", True), ("VBool", False), ("VInt", 0), ("VInt", 1), ("VFloat", 1), ("VStr", "1")):
            base.append((("TLit", ls), v))
            base.append((("TIter", "KList", ("TLit", ls), "List"), ("VList", [v])))
    for kind, sp in (("KList", "List"), ("KList", "list"), ("KSet", "Set"), ("KFrozenSet", "FrozenSet"), ("KTuple", "Sequence"),
                     ("KTuple", "TupleVar")):
        for v in (("VStr", "ab"), ("VDict", [(("VStr", "a"), ("VInt", 1))]), ("VBytes", "ab"), ("VList", [("VInt", 1)])):
            base.append((("TIter", kind, ("TAny",), sp), v))
            base.append((("TTuple", [("TAny",), ("TAny",)]), v))
    cases = [(mi, sc, t, v) for t, v in base for sc in (True, False) for mi in range(3)]
    expected, bad = lg.correspond(rep, PID, cases)
    # ---- direct oracle on the library
    n_pair = 0
    for i, (t, v) in enumerate(base):
        outs = expected[6 * i:6 * i + 6]          # strict D,F,A then lax D,F,A
        for mi in range(3):
            s, l = outs[mi], outs[3 + mi]
            n_pair += 1
            if s.startswith("OK "):
                if not l.startswith("OK "):
                    rep.violation(f"narrowing:{t[0]}:{v[0]}", "property-violated",
                                  {"what": "accepted with strict_coercion=True but rejected with strict_coercion=False",
                                   "type": t, "datum": v, "mode": lg.MODES[mi], "strict": s, "lax": l})
                elif union_free(t) and s != l:
                    rep.violation(f"value:{t[0]}:{v[0]}", "property-violated",
                                  {"what": "strict and lax coercion load the same datum to different values (no union involved)",
                                   "type": t, "datum": v, "mode": lg.MODES[mi], "strict": s, "lax": l})
                for tt, vv in sub_positions(t, v):
                    if not strict_origin_ok(tt, vv):
                        rep.violation(f"origin:{tt[0]}:{vv[0]}", "property-violated",
                                      {"what": "strict mode accepted a datum outside the documented allowed strict origins",
                                       "type": t, "datum": v, "mode": lg.MODES[mi], "position_type": tt, "position_datum": vv,
                                       "strict": s})
    seen_t, exo_types = set(), [("TInt",), ("TFloat",), ("TStr",), ("TBool",), ("TNone",)]
    for t, _ in base:
        if repr(t) not in seen_t:
            seen_t.add(repr(t))
            exo_types.append(t)
    n_exo = exotic_oracle(rep, exo_types[:100 if tier == "quick" else 1500])
    rep.cov.update({
        "evaluations": len(cases) + n_exo, "pairs_checked": n_pair,
        "distinct_nontrivial": len({repr(b) for b in base if b[0][0] not in ("TInt", "TStr", "TBool", "TNone", "TAny", "TFloat")}),
        "rule": "types of depth <= 3 (scalars, Literal, iterables incl. abstract collections, fixed tuples, dict/Mapping, "
                "Optional, Union) x 7 data per type (25% junk look-alikes) plus directed Literal bool/int look-alikes and "
                "Any-element iterables fed str / Mapping / bytes; each under strict and lax x 3 debug modes on library and "
                "model; non-trivial = compound type",
        "samples": [{"type": base[i][0], "datum": base[i][1], "strict_ALL": expected[6 * i + 2], "lax_ALL": expected[6 * i + 5]}
                    for i in (0, 1)],
        "distribution": {"strict_ok": sum(expected[6 * i + 2].startswith("OK") for i in range(len(base))),
                         "lax_ok": sum(expected[6 * i + 5].startswith("OK") for i in range(len(base))),
                         "model_vs_library_mismatches": len(bad)},
    })
    lg.proof_problems(rep, PID, proof)


def replay(rep, body):
    res = lg.replay_case(rep, body)
    if res is None:
        return
    t, v, outs = res
    bad = False
    for m in lg.MODES:
        s, l = outs[(True, m)], outs[(False, m)]
        if s.startswith("OK ") and (not l.startswith("OK ") or (union_free(t) and s != l)):
            bad = True
        if s.startswith("OK ") and any(not strict_origin_ok(tt, vv) for tt, vv in sub_positions(t, v)):
            bad = True
    if "model" in body and outs[(body["strict_coercion"], body["mode"])] != body["model"]:
        bad = True
    if bad:
        rep.violation(body["signature"], body["kind"], body)
