"""C10 - predicates match as documented.  Model: coq/Model/Pred.v, theorems: coq/Props/C10.v.

Cases are drawn in the model's vocabulary (worlds of classes, predicates, P expressions, location stacks) and rendered
both to Gallina terms and to real adaptix objects; nothing asks adaptix what a predicate should mean.
"""
import abc
import random
import re
import typing
from dataclasses import dataclass, field, make_dataclass
from typing import Any, Generic, List, Protocol, TypeVar, runtime_checkable

import lib
from lib import CoqEval, coq_list, coq_nat, coq_str

PID = "C10"
T = TypeVar("T")
K = TypeVar("K")

# ----------------------------------------------------------------------------------------------------------------------
# the world: a fixed universe of classes (ids are the model's cls numbers)


def make_world():
    class C0:
        pass

    class C1(C0):          # concrete subclass of a concrete class: must NOT match predicate C0
        pass

    class A2(abc.ABC):     # abstract
        @abc.abstractmethod
        def m(self):
            ...

    class C3(A2):          # concrete implementation of A2
        def m(self):
            return 1

    class C4(C3):
        pass

    @runtime_checkable
    class Pr5(Protocol):   # runtime protocol
        def quack(self) -> int:
            ...

    class C6:              # implements Pr5 structurally
        def quack(self) -> int:
            return 1

    class G7(Generic[T]):  # user generic, one parameter
        pass

    class A8(abc.ABC):     # abstract, no implementation in the universe
        @abc.abstractmethod
        def z(self):
            ...

    class E14(abc.ABC):    # lists ABC in its bases but has no abstract method: a CONCRETE class (inspect.isabstract is False)
        pass

    class E15(E14):
        pass

    class M16(metaclass=abc.ABCMeta):   # concrete, created by ABCMeta without naming ABC
        def m(self):
            return 0

    class E17(M16):
        pass

    objs = [C0, C1, A2, C3, C4, Pr5, C6, G7, A8, list, dict, int, str, Any, E14, E15, M16, E17]
    names = ["C0", "C1", "A2", "C3", "C4", "Pr5", "C6", "G7", "A8", "list", "dict", "int", "str", "Any", "E14", "E15", "M16", "E17"]
    for o, n in zip(objs, names):
        if isinstance(o, type) and o.__module__ != "builtins":
            o.__qualname__ = o.__name__ = n
    arity = {7: 1, 9: 1, 10: 2}
    abstract = [2, 5, 8]    # drawn as "abstract or protocol": the generator's own knowledge, by construction
    # issubclass matrix computed with the interpreter's issubclass (stdlib oracle), never via adaptix
    anc = []
    for i, o in enumerate(objs):
        row = []
        for j, p in enumerate(objs):
            try:
                if isinstance(o, type) and isinstance(p, type) and issubclass(o, p):
                    row.append(j)
            except TypeError:
                pass
        if i not in row:
            row.append(i)
        anc.append((i, row))
    return {"objs": objs, "names": names, "arity": arity, "abstract": abstract, "anc": anc}


ANY = 13
CONCRETE_PLAIN = [0, 1, 3, 4, 6, 11, 12, 14, 15, 16, 17]
GENERICS = [7, 9, 10]
FIELD_IDS = ["a", "ab", "b_1", "name", "x", "class_", "_p"]
REGEXES = ["a.*", ".*_", "a|b_1", "[a-z]+", "x?", "na me", "a.", "(name|x)"]
PRED_STRS = FIELD_IDS + REGEXES + ["__x__", "a b"]


class Gen:
    def __init__(self, seed, world):
        self.r = random.Random(seed)
        self.w = world

    # --- types: ("ty", origin, [args])
    def ty(self, depth=2):
        r = self.r
        if depth <= 0 or r.random() < 0.6:
            return ("ty", r.choice(CONCRETE_PLAIN + [2, 5, 8]), [])
        g = r.choice(GENERICS)
        n = self.w["arity"][g]
        if r.random() < 0.3:
            return ("ty", g, [("ty", ANY, [])] * n)
        return ("ty", g, [self.ty(depth - 1) for _ in range(n)])

    def loc(self):
        r = self.r
        kind = r.choice(["KType", "KField", "KInField", "KInFuncField", "KOutField", "KGeneric"])
        return ("loc", kind, self.ty(), r.choice(FIELD_IDS), r.randrange(3))

    def stack(self, maxlen=4):
        return [self.loc() for _ in range(self.r.randint(1, maxlen))]

    # --- checkers built directly from the library's checker classes
    def chk(self, depth=2):
        r = self.r
        k = r.randrange(12 if depth > 0 else 7)
        if k == 0:
            return ("CAny",)
        if k == 1:
            return ("CExactField", r.choice(FIELD_IDS))
        if k == 2:
            return ("CReField", r.choice(REGEXES))
        if k == 3:
            return ("CExactOrigin", r.choice(CONCRETE_PLAIN + GENERICS))
        if k == 4:
            return ("COriginSub", r.choice([2, 5, 8, 0]))
        if k == 5:
            return ("CGenericPos", r.randrange(3))
        if k == 6:
            return ("CSize", r.randint(1, 4))
        if k == 7:
            return ("CNot", self.chk(depth - 1))
        if k == 8:
            return ("CAnd", [self.chk(depth - 1) for _ in range(r.randint(1, 3))])
        if k == 9:
            return ("COr", [self.chk(depth - 1) for _ in range(r.randint(1, 3))])
        if k == 10:
            return ("CXor", [self.chk(depth - 1) for _ in range(r.randint(2, 3))])
        return ("CEnd", [self.chk(depth - 1) for _ in range(r.randint(1, 3))])

    # --- predicates and P expressions
    def leaf_pred(self):
        r = self.r
        k = r.randrange(10)
        if k < 3:
            return ("PStr", r.choice(PRED_STRS))
        if k == 3:
            return ("PRe", r.choice(REGEXES))
        if k < 7:
            return ("PCls", r.choice(CONCRETE_PLAIN + [2, 5, 8] + GENERICS))
        if k == 7:
            g = r.choice(GENERICS)
            return ("PTy", ("ty", g, [self.ty(1) for _ in range(self.w["arity"][g])]))
        return ("PChk", self.chk(1))

    def pred(self, depth=2):
        if depth > 0 and self.r.random() < 0.45:
            return ("PPat", self.pexpr(depth))
        return self.leaf_pred()

    def operand(self, depth):
        if self.r.random() < 0.75:
            return ("OPat", self.pexpr(depth, nonempty=True))
        return ("OChk", self.chk(1))

    def pexpr(self, depth=2, nonempty=False):
        r = self.r
        if depth <= 0:
            e = ("EP",)
            if nonempty or r.random() < 0.9:
                e = ("EItem", e, self.leaf_pred())
            return e
        k = r.randrange(11)
        if k < 3:
            p = self.leaf_pred() if r.random() < 0.9 else self.pred(depth - 1)
            return ("EItem", self.pexpr(depth - 1), p)
        if k < 5:
            return ("EAttr", self.pexpr(depth - 1), r.choice(FIELD_IDS + ["__x__"]))
        if k == 5:
            return ("ETuple", self.pexpr(depth - 1), [self.leaf_pred() for _ in range(r.randint(0, 3))])
        if k < 8:
            a, b = self.operand(depth - 1), self.operand(depth - 1)
            if a[0] == "OChk" and b[0] == "OChk":
                a = ("OPat", self.pexpr(depth - 1, nonempty=True))
            return ("EBin", r.choice(["BOr", "BAnd", "BXor"]), a, b)
        if k == 8:
            return ("EInv", self.pexpr(depth - 1, nonempty=True))
        if k == 9:
            return ("EAdd", self.pexpr(depth - 1), self.pexpr(depth - 1))
        return ("EGen", self.pexpr(depth - 1), r.randrange(3), self.leaf_pred())


    def chain(self):
        """a op b op c ... with one operator, 3-5 operands of varied truth value, nested to the left, to the right or
        mixed, at pattern level and at checker level (chained operators are where associativity assumptions hide)"""
        r = self.r
        op = r.choice(["BOr", "BAnd", "BXor"])
        n = r.randint(3, 5)

        def leaf():
            k = r.randrange(5)
            if k == 0:
                return ("OChk", ("CAny",))
            if k == 1:
                return ("OChk", ("CNot", ("CAny",)))
            if k == 2:
                return ("OPat", ("EItem", ("EP",), ("PChk", ("CAny",))))
            return ("OPat", ("EItem", ("EP",), self.leaf_pred()))
        acc = leaf()
        for _ in range(n - 1):
            nxt = leaf()
            a, b = (acc, nxt) if r.random() < 0.7 else (nxt, acc)
            if a[0] == "OChk" and b[0] == "OChk":
                # checker op checker is a checker: represent it by the checker the library's operator builds
                acc = ("OChk", ({"BOr": "COr", "BAnd": "CAnd", "BXor": "CXor"}[op] + "2", a[1], b[1]))
            else:
                acc = ("OPat", ("EBin", op, a, b))
        return ("PPat", acc[1]) if acc[0] == "OPat" else ("PChk", acc[1])


# ----------------------------------------------------------------------------------------------------------------------
# rendering to Gallina

def coq_ty(t):
    return f"(Ty {t[1]} {coq_list([coq_ty(a) for a in t[2]])})"


def coq_loc(l):
    return f"(Loc {l[1]} {coq_ty(l[2])} {coq_str(l[3])} {l[4]})"


def coq_chk(c):
    k = c[0]
    if k == "CAny":
        return "CAny"
    if k in ("CExactField", "CReField"):
        return f"({k} {coq_str(c[1])})"
    if k in ("CExactOrigin", "COriginSub", "CGenericPos", "CSize"):
        return f"({k} {c[1]})"
    if k == "CNot":
        return f"(CNot {coq_chk(c[1])})"
    if k in ("COr2", "CAnd2", "CXor2"):      # built with the | & ^ operators of two checker objects
        return f"({k[:-1]} [{coq_chk(c[1])}; {coq_chk(c[2])}])"
    return f"({k} {coq_list([coq_chk(x) for x in c[1]])})"


def coq_pred(p):
    k = p[0]
    if k in ("PStr", "PRe"):
        return f"({k} {coq_str(p[1])})"
    if k == "PCls":
        return f"(PCls {p[1]})"
    if k == "PTy":
        return f"(PTy {coq_ty(p[1])})"
    if k == "PChk":
        return f"(PChk {coq_chk(p[1])})"
    return f"(PPat {coq_pexpr(p[1])})"


def coq_operand(o):
    return f"(OPat {coq_pexpr(o[1])})" if o[0] == "OPat" else f"(OChk {coq_chk(o[1])})"


def coq_pexpr(e):
    k = e[0]
    if k == "EP":
        return "EP"
    if k == "EItem":
        return f"(EItem {coq_pexpr(e[1])} {coq_pred(e[2])})"
    if k == "EAttr":
        return f"(EAttr {coq_pexpr(e[1])} {coq_str(e[2])})"
    if k == "ETuple":
        return f"(ETuple {coq_pexpr(e[1])} {coq_list([coq_pred(p) for p in e[2]])})"
    if k == "EBin":
        return f"(EBin {e[1]} {coq_operand(e[2])} {coq_operand(e[3])})"
    if k == "EInv":
        return f"(EInv {coq_pexpr(e[1])})"
    if k == "EAdd":
        return f"(EAdd {coq_pexpr(e[1])} {coq_pexpr(e[2])})"
    return f"(EGen {coq_pexpr(e[1])} {e[2]} {coq_pred(e[3])})"


def coq_world(world, re_table):
    anc = coq_list([f"({i}, {coq_list([str(j) for j in row])})" for i, row in world["anc"]])
    res = coq_list([f"({coq_str(k)}, {coq_list([coq_str(s) for s in v])})" for k, v in sorted(re_table.items())])
    return f"(World {coq_list([str(a) for a in world['abstract']])} {anc} {res})"


# ----------------------------------------------------------------------------------------------------------------------
# rendering to adaptix objects

def py_ty(world, t, rnd=None, allow_bare=True):
    o = world["objs"][t[1]]
    if not t[2]:
        return o
    args = tuple(py_ty(world, a, rnd) for a in t[2])
    if allow_bare and all(a is Any for a in args) and (rnd is None or rnd.random() < 0.5):
        if o is list and rnd is not None and rnd.random() < 0.5:
            return typing.List
        return o                      # bare generic: normalises to G[Any, ...]
    if o is list and rnd is not None and rnd.random() < 0.5:
        return typing.List[args[0]]
    if o is dict and rnd is not None and rnd.random() < 0.5:
        return typing.Dict[args[0], args[1]]
    return o[args if len(args) > 1 else args[0]]


def py_loc(world, l, rnd=None):
    from adaptix._internal.model_tools.definitions import NoDefault, create_attr_accessor
    from adaptix._internal.provider.location import (
        FieldLoc, GenericParamLoc, InputFieldLoc, InputFuncFieldLoc, OutputFieldLoc, TypeHintLoc,
    )
    tp = py_ty(world, l[2], rnd)
    k = l[1]
    base = dict(type=tp, field_id=l[3], default=NoDefault(), metadata={})
    if k == "KType":
        return TypeHintLoc(type=tp)
    if k == "KField":
        return FieldLoc(**base)
    if k == "KInField":
        return InputFieldLoc(**base, is_required=True)
    if k == "KInFuncField":
        return InputFuncFieldLoc(**base, func=len)
    if k == "KOutField":
        return OutputFieldLoc(**base, accessor=create_attr_accessor(l[3], is_required=True))
    return GenericParamLoc(type=tp, generic_pos=l[4])


def py_stack(world, st, rnd=None):
    from adaptix._internal.provider.loc_stack_filtering import LocStack
    return LocStack(*[py_loc(world, l, rnd) for l in st])


def py_chk(world, c):
    from adaptix._internal.provider import loc_stack_filtering as f
    k = c[0]
    if k == "CAny":
        return f.P.ANY
    if k == "CExactField":
        return f.ExactFieldNameLSC(c[1])
    if k == "CReField":
        return f.ReFieldNameLSC(re.compile(c[1]))
    if k == "CExactOrigin":
        return f.ExactOriginLSC(world["objs"][c[1]])
    if k == "COriginSub":
        return f.OriginSubclassLSC(world["objs"][c[1]])
    if k == "CGenericPos":
        return f.GenericParamLSC(c[1])
    if k == "CSize":
        return f.LocStackSizeChecker(c[1])
    if k == "CNot":
        return ~py_chk(world, c[1])
    if k == "COr2":
        return py_chk(world, c[1]) | py_chk(world, c[2])
    if k == "CAnd2":
        return py_chk(world, c[1]) & py_chk(world, c[2])
    if k == "CXor2":
        return py_chk(world, c[1]) ^ py_chk(world, c[2])
    subs = [py_chk(world, x) for x in c[1]]
    if k == "CAnd":
        return f.AndLocStackChecker(subs)
    if k == "COr":
        return f.OrLocStackChecker(subs)
    if k == "CXor":
        return f.XorLocStackChecker(subs)
    return f.LocStackEndChecker(tuple(subs))


def py_pred(world, p, rnd=None):
    k = p[0]
    if k == "PStr":
        return p[1]
    if k == "PRe":
        return re.compile(p[1])
    if k == "PCls":
        o = world["objs"][p[1]]
        if o is list and rnd is not None and rnd.random() < 0.5:
            return typing.List
        if o is dict and rnd is not None and rnd.random() < 0.5:
            return typing.Dict
        return o
    if k == "PTy":
        return py_ty(world, p[1], rnd, allow_bare=False)
    if k == "PChk":
        return py_chk(world, p[1])
    return py_pexpr(world, p[1], rnd)


def py_operand(world, o, rnd=None):
    return py_pexpr(world, o[1], rnd) if o[0] == "OPat" else py_chk(world, o[1])


def _used(pat, rnd):
    """a pattern kept in a variable is often used as a predicate (or as an operand) before it is extended: doing so
    must not change what the extended pattern matches"""
    if rnd is None or rnd.random() < 0.5:
        return pat
    from adaptix import P
    from adaptix._internal.provider.loc_stack_filtering import create_loc_stack_checker
    if pat is P:
        return pat
    try:
        c = rnd.random()
        if c < 0.5:
            create_loc_stack_checker(pat)
        elif c < 0.75:
            _ = pat | pat
        else:
            _ = ~pat
    except (TypeError, ValueError, AttributeError):
        pass
    return pat


def py_pexpr(world, e, rnd=None):
    from adaptix import P
    k = e[0]
    if k == "EP":
        return P
    if k == "EItem":
        return _used(py_pexpr(world, e[1], rnd), rnd)[py_pred(world, e[2], rnd)]
    if k == "EAttr":
        return getattr(_used(py_pexpr(world, e[1], rnd), rnd), e[2])
    if k == "ETuple":
        return _used(py_pexpr(world, e[1], rnd), rnd)[tuple(py_pred(world, p, rnd) for p in e[2])]
    if k == "EBin":
        a, b = py_operand(world, e[2], rnd), py_operand(world, e[3], rnd)
        return {"BOr": lambda: a | b, "BAnd": lambda: a & b, "BXor": lambda: a ^ b}[e[1]]()
    if k == "EInv":
        return ~py_pexpr(world, e[1], rnd)
    if k == "EAdd":
        return _used(py_pexpr(world, e[1], rnd), rnd) + _used(py_pexpr(world, e[2], rnd), rnd)
    return _used(py_pexpr(world, e[1], rnd), rnd).generic_arg(e[2], py_pred(world, e[3], rnd))


def impl_matches(world, pred, stack, rnd=None):
    """What the implementation says: '1' / '0', or 'E' when building the checker raises."""
    from adaptix._internal.provider.loc_stack_filtering import create_loc_stack_checker
    try:
        checker = create_loc_stack_checker(py_pred(world, pred, rnd))
    except (TypeError, ValueError, AttributeError):
        return "E"
    return "1" if checker.check_loc_stack(None, py_stack(world, stack, rnd)) else "0"


# ----------------------------------------------------------------------------------------------------------------------

def all_strings(x, acc):
    if isinstance(x, str):
        acc.add(x)
    elif isinstance(x, (list, tuple)):
        for y in x:
            all_strings(y, acc)


def regex_table():
    """Oracle: re.fullmatch from the standard library, for every (pattern text, field id) the cases can mention."""
    tbl = {}
    for pat in set(PRED_STRS) | set(REGEXES):
        try:
            rx = re.compile(pat)
        except re.error:
            continue
        tbl[pat] = [s for s in FIELD_IDS if rx.fullmatch(s)]
    return tbl


def nontrivial(case):
    pred, stack = case
    return pred[0] == "PPat" or (pred[0] == "PChk" and pred[1][0] not in ("CAny",)) or len(stack) > 1


def identity_oracle(rep, world, g, n):
    """Direct, model-independent oracle on the implementation: the documented identities and pointwise combinators
    compared side by side on random stacks."""
    from adaptix import P
    from adaptix._internal.provider.loc_stack_filtering import create_loc_stack_checker as mk
    bad = 0
    for i in range(n):
        a, b = g.leaf_pred(), g.leaf_pred()
        name = g.r.choice(FIELD_IDS)
        st = g.stack()
        pa, pb = py_pred(world, a), py_pred(world, b)
        pst = py_stack(world, st)

        def ev(p):
            try:
                return mk(p).check_loc_stack(None, pst)
            except (TypeError, ValueError, AttributeError) as e:
                return type(e).__name__
        checks = [
            ("P['n']==P.n", ev(P[name]), ev(getattr(P, name))),
            ("P[A]==A", ev(P[pa]), ev(pa)),
            ("P[A]+P.n==P[A].n", ev(P[pa] + getattr(P, name)), ev(getattr(P[pa], name))),
            ("P[A,B]==P[A]|P[B]", ev(P[pa, pb]), ev(P[pa] | P[pb])),
        ]
        va, vb = ev(P[pa]), ev(P[pb])
        if isinstance(va, bool) and isinstance(vb, bool):
            checks += [
                ("|", ev(P[pa] | P[pb]), va or vb), ("&", ev(P[pa] & P[pb]), va and vb),
                ("^", ev(P[pa] ^ P[pb]), va != vb), ("~", ev(~P[pa]), not va),
            ]
        for nm, x, y in checks:
            if x != y:
                bad += 1
                rep.violation(f"identity:{nm}", "property-violated",
                              {"identity": nm, "A": a, "B": b, "name": name, "stack": st, "lhs": x, "rhs": y})
    return bad


def retort_route(rep, world, g, n):
    """Predicates used through the public API: loader(pred, marker) inside a Retort, on real dataclass models; the
    location stack of every field is known by construction ([model, field]) and the model predicts which fields are
    reached."""
    from adaptix import Retort, loader
    cases = []
    objs = world["objs"]
    for i in range(n):
        r = g.r
        fields = r.sample(FIELD_IDS, 3)
        ftypes = [r.choice([0, 3, 6, 11, 12]) for _ in fields]
        mname = f"M{i}"
        M = make_dataclass(mname, [(f, objs[t]) for f, t in zip(fields, ftypes)])
        # predicate: field of model / bare string / class / pattern chains rooted at the model class (id 100 = M)
        k = r.randrange(5)
        fsel = r.choice(fields + ["zz"])
        if k == 0:
            pred = ("PStr", fsel)
        elif k == 1:
            pred = ("PPat", ("EAttr", ("EItem", ("EP",), ("PCls", 100)), fsel))
        elif k == 2:
            pred = ("PCls", r.choice(ftypes + [1]))
        elif k == 3:
            pred = ("PPat", ("EItem", ("EItem", ("EP",), ("PCls", 100)), ("PCls", r.choice(ftypes))))
        else:
            pred = ("PPat", ("EBin", "BAnd", ("OPat", ("EItem", ("EP",), ("PStr", r.choice(REGEXES)))),
                             ("OPat", ("EInv", ("EItem", ("EP",), ("PCls", r.choice(ftypes)))))))
        w2 = dict(world)
        w2["objs"] = objs + [None] * (101 - len(objs))
        w2["objs"][100] = M
        sentinel = object()
        try:
            retort = Retort(recipe=[loader(py_pred(w2, pred), lambda x, s=sentinel: s)])
            vals = {0: objs[0](), 3: objs[3](), 6: objs[6](), 11: 7, 12: "s"}
            # plain classes C0/C3/C6 have no builtin loader: give them a pass-through after the marker
            retort = retort.extend(recipe=[loader(objs[t], lambda x: x) for t in (0, 3, 6)][::-1])
            retort = Retort(recipe=[loader(py_pred(w2, pred), lambda x, s=sentinel: s),
                                    *[loader(objs[t], lambda x: x) for t in (0, 3, 6)]])
            data = {f: vals[t] for f, t in zip(fields, ftypes)}
            res = retort.load(data, M)
            got = "".join("1" if getattr(res, f) is sentinel else "0" for f in fields) if res is not sentinel else "R"
        except Exception as e:  # noqa: BLE001
            got = "X:" + type(e).__name__
        for j, (f, t) in enumerate(zip(fields, ftypes)):
            stack = [("loc", "KType", ("ty", 100, []), "", 0), ("loc", "KInField", ("ty", t, []), f, 0)]
            if got not in ("R",) and not got.startswith("X:"):
                cases.append(((pred, stack), got[j]))
        root = [("loc", "KType", ("ty", 100, []), "", 0)]
        cases.append(((pred, root), "1" if got == "R" else "0"))
    return cases


def run(rep, tier, seed):
    world = make_world()
    proof = lib.proof_stage(rep, PID, extra_trusted=[
        "oracles: re.fullmatch and issubclass tables computed with the standard library; str.isidentifier on ASCII "
        "re-checked against the model each run"])
    g = Gen(seed, world)
    rnd = random.Random(seed + 1)
    n = 1500 if tier == "quick" else 40000
    cases = []
    for i in range(n):
        depth = g.r.choice([0, 1, 1, 2, 2, 3])
        cases.append((g.pred(depth), g.stack()))
    for i in range(400 if tier == "quick" else 8000):
        cases.append((g.chain(), g.stack(2)))
    # small exhaustive block: every leaf predicate kind x every single-location stack over a small type pool
    leafs = ([("PStr", s) for s in PRED_STRS] + [("PRe", s) for s in REGEXES]
             + [("PCls", c) for c in list(range(13)) + [14, 15, 16, 17]] + [("PTy", ("ty", 9, [("ty", a, [])])) for a in (11, 12, ANY, 0)])
    small_types = [("ty", c, []) for c in list(range(9)) + [14, 15, 16, 17]] + [("ty", 9, [("ty", a, [])]) for a in (11, ANY)] + \
                  [("ty", 7, [("ty", ANY, [])]), ("ty", 10, [("ty", 12, []), ("ty", 11, [])])]
    for p in leafs:
        for t in small_types:
            for kind in ("KType", "KInField", "KGeneric"):
                for fid in ("a", "ab", "name"):
                    cases.append((p, [("loc", kind, t, fid, 1)]))
    re_tbl = regex_table()
    expected = [impl_matches(world, p, st, rnd) for p, st in cases]

    # the public-API route
    rcases = retort_route(rep, world, g, 60 if tier == "quick" else 600)
    w_anc2 = world["anc"] + [(100, [100])]
    world2 = dict(world, anc=w_anc2)
    allc = cases + [c for c, _ in rcases]
    alle = expected + [e for _, e in rcases]

    header = ("From AV Require Import Model.Pred.\nFrom Coq Require Import List String.\nImport ListNotations.\n"
              f"Definition W := {coq_world(world2, re_tbl)}.\n"
              "Definition run (c : pred * list loc) : string := match matches W (fst c) (snd c) with "
              'Some true => "1"%string | Some false => "0"%string | None => "E"%string end.')
    ce = CoqEval(PID, header, "run")
    coq_cases = [(f"({coq_pred(p)}, {coq_list([coq_loc(l) for l in st])})", e) for (p, st), e in zip(allc, alle)]
    bad = ce.compare(coq_cases) if proof["props"]["ok"] or (lib.COQ / "Model" / "Pred.vo").exists() else []
    # oracle conformance: the model's is_identifier against str.isidentifier on the ASCII strings in use
    ident_cases = sorted(set(PRED_STRS) | {"", "1a", "a1", "_", "a-b", "A_9", "9", "a.b"})
    hdr2 = "From AV Require Import Model.Pred Model.Harness.\nDefinition run (s : string) := show_bool (is_identifier s)."
    ce2 = CoqEval(PID + "_ident", hdr2, "run")
    bad2 = ce2.compare([(coq_str(s), "1" if s.isidentifier() else "0") for s in ident_cases])

    rep.cov["evaluations"] = len(allc) + len(ident_cases)
    rep.cov["distinct_nontrivial"] = len({repr(c) for c in allc if nontrivial(c)})
    rep.cov["rule"] = ("(predicate, location stack) pairs drawn from the model grammar (P expressions of nesting <= 3 over a "
                       "18-class world with abstract classes, concrete classes that list ABC / use ABCMeta, a runtime protocol, user and builtin generics; stacks of 1-4 "
                       "locations of all six location classes) plus an exhaustive block of every leaf predicate x single "
                       "location, plus loader(pred, marker) through a real Retort; non-trivial = pattern predicate, "
                       "composite checker or stack longer than one; distinct by structural repr")
    rep.cov["samples"] = [{"pred": allc[i][0], "stack": allc[i][1], "impl": alle[i]} for i in (0, 1, len(cases) + 1)]
    rep.cov["distribution"] = {
        "pred_kinds": {k: sum(1 for c in allc if c[0][0] == k) for k in ("PStr", "PRe", "PCls", "PTy", "PChk", "PPat")},
        "outcomes": {k: alle.count(k) for k in ("0", "1", "E")},
        "exhaustive_block": len(leafs) * len(small_types) * 9, "retort_route_cases": len(rcases),
    }

    for k, err in ce.errors + ce2.errors:
        rep.violation("coq-eval-failed", "correspondence-diff", {"shard": k, "coq_error": err}, no_input=True)
    for idx, got in bad:
        p, st = allc[idx]
        rep.violation(f"diff:{p[0]}:{alle[idx]}vs{got}", "correspondence-diff",
                      {"case": {"pred": p, "stack": st}, "implementation": alle[idx], "model": got,
                       "how": "model answer is what Props/C10.v's theorems fix as the documented behaviour"})
    for idx, got in bad2:
        rep.violation("oracle:isidentifier", "oracle-law-broken", {"string": ident_cases[idx], "model": got})
    nid = identity_oracle(rep, world, g, 300 if tier == "quick" else 5000)
    rep.cov["evaluations"] += 300 if tier == "quick" else 5000
    rep.cov["identity_oracle_failures"] = nid
    if not proof["ok"]:
        found = bool(rep.violations)
        for kind, text in proof["problems"]:
            rep.violation(f"{kind}-broken", "proof-broken" if kind == "proof" else kind,
                          {"what": f"{kind} stage failed for {PID}", "text": text}, no_input=not found)


def replay(rep, body):
    world = make_world()
    if "case" in body:
        c = body["case"]
        got = impl_matches(world, tolist(c["pred"]), tolist(c["stack"]))
        print(f"implementation={got} model={body.get('model')}")
        if got != body.get("model"):
            rep.violation(body["signature"], "correspondence-diff", body)
    else:
        print("replay file names a broken obligation, not an input:", body.get("what") or body.get("identity"))
        rep.violation(body["signature"], body["kind"], body, no_input=body.get("no_failing_input_found", False))


def tolist(x):
    if isinstance(x, list):
        return tuple(tolist(y) for y in x) if x and isinstance(x[0], str) and x[0][:1].isupper() or (x and x[0] in ("ty", "loc")) else [tolist(y) for y in x]
    return x
