"""C16 - generic models: type arguments are substituted through the class hierarchy.
Model: coq/Model/Generic.v, theorem: coq/Props/C16.v (resolver = substitution composed along the inheritance path).

Class hierarchies are drawn as class tables in the model's vocabulary (parameters, bases applied to argument hints, own
annotations incl. overrides and re-ordered / nested uses of the variables) and rendered to real generic dataclasses
(and attrs classes).  For every parametrisation and every field the expected type is computed by a direct restatement
of the specification; the library must accept exactly the probe data that conforms to it (strict coercion), and the Coq
model's `resolve` must give the same type.
"""
import random
import typing
from dataclasses import dataclass, field, make_dataclass
from typing import Any, Dict, Generic, List, Optional, Tuple, TypeVar

import lib
from lib import CoqEval, coq_list

PID = "C16"
TVS = [TypeVar("T0"), TypeVar("T1"), TypeVar("T2")]
INT, STR, BOOL, LIST, DICT, TUPLE, OPT, ANY = 100, 101, 106, 102, 103, 104, 105, 107


# ----------------------------------------------------------------------------------------------------------------------
# type expressions: ("tv", i) | ("tc", c, [args])

def tc(c, *args):
    return ("tc", c, list(args))


def subst(s, t):
    if t[0] == "tv":
        return s.get(t[1], t)
    return ("tc", t[1], [subst(s, a) for a in t[2]])


def closed(t):
    return t[0] != "tv" and all(closed(a) for a in t[2])


def py_ty(t):
    if t[0] == "tv":
        return TVS[t[1]]
    c, args = t[1], [py_ty(a) for a in t[2]]
    if c == INT:
        return int
    if c == STR:
        return str
    if c == BOOL:
        return bool
    if c == ANY:
        return Any
    if c == LIST:
        return List[args[0]]
    if c == DICT:
        return Dict[args[0], args[1]]
    if c == TUPLE:
        return Tuple[tuple(args)]
    if c == OPT:
        return Optional[args[0]]
    raise ValueError(t)


def coq_tyx(t):
    if t[0] == "tv":
        return f"(TV {t[1]})"
    return f"(TC {t[1]} {coq_list([coq_tyx(a) for a in t[2]])})"


def show_tyx(t):
    if t[0] == "tv":
        return f"v{t[1]}"
    return f"c{t[1]}[" + ",".join(show_tyx(a) for a in t[2]) + "]"


def conforms(t, v):
    c = t[1]
    if c == ANY:
        return True
    if c == INT:
        return type(v) is int
    if c == STR:
        return type(v) is str
    if c == BOOL:
        return type(v) is bool
    if c == LIST:
        return isinstance(v, (list, tuple)) and all(conforms(t[2][0], x) for x in v)
    if c == DICT:
        return isinstance(v, dict) and all(conforms(t[2][0], k) and conforms(t[2][1], x) for k, x in v.items())
    if c == TUPLE:
        return isinstance(v, (list, tuple)) and len(v) == len(t[2]) and all(conforms(a, x) for a, x in zip(t[2], v))
    if c == OPT:
        return v is None or conforms(t[2][0], v)
    raise ValueError(t)


def witness(t):
    c = t[1]
    return {ANY: lambda: 1.5, INT: lambda: 5, STR: lambda: "s", BOOL: lambda: True,
            LIST: lambda: [witness(t[2][0])], DICT: lambda: {witness(t[2][0]): witness(t[2][1])} if t[2][0][1] in (INT, STR, BOOL) else {},
            TUPLE: lambda: [witness(a) for a in t[2]], OPT: lambda: witness(t[2][0])}[c]()


PROBES = [5, "s", True, None, [1, 2], ["a"], {"k": 1}, {1: "v"}, [1, "s"], ["s", 1], [[1]], [True], 1.5]


# ----------------------------------------------------------------------------------------------------------------------
# class tables

class TableGen:
    def __init__(self, rnd):
        self.r = rnd

    def ann(self, params, d=2):
        r = self.r
        k = r.random()
        if not params or k < 0.15:
            return r.choice([tc(INT), tc(STR)])
        if d <= 0 or k < 0.5:
            return ("tv", r.choice(params))
        if k < 0.65:
            return tc(LIST, self.ann(params, d - 1))
        if k < 0.78:
            return tc(DICT, r.choice([tc(STR), ("tv", r.choice(params))]), self.ann(params, d - 1))
        if k < 0.92:
            return tc(TUPLE, *[self.ann(params, d - 1) for _ in range(2)])
        return tc(OPT, self.ann(params, d - 1))

    def table(self):
        """list of classes, index = name; class = dict(params, bases=[(cname, [args])], own=[(fname, ann)])"""
        r = self.r
        n = r.randint(1, 4)
        classes = []
        fcount = 0
        for c in range(n):
            params = sorted(r.sample(range(3), r.randint(0 if c > 0 else 1, 3)))
            r.shuffle(params)
            bases = []
            if c > 0:
                chosen = r.sample(range(c), 1 if r.random() < 0.85 or c < 2 else 2)
                if len(chosen) == 2:
                    # two bases only when they share no ancestor and no field: there the depth-first search of the model
                    # and Python's C3 linearisation agree (diamonds are outside the model, see the claim text)
                    a1, a2 = self.ancestors(classes, chosen[0]), self.ancestors(classes, chosen[1])
                    f1 = set(self.all_fields(classes, [(chosen[0], [])]))
                    f2 = set(self.all_fields(classes, [(chosen[1], [])]))
                    if a1 & a2 or f1 & f2:
                        chosen = chosen[:1]
                for b in chosen:
                    bparams = classes[b]["params"]
                    bases.append((b, [self.ann(params, 1) if params or True else tc(INT) for _ in bparams]))
            own = []
            for _ in range(r.randint(0 if c > 0 else 1, 2)):
                own.append((fcount, self.ann(params)))
                fcount += 1
            inherited = self.all_fields(classes, bases)
            if inherited and r.random() < 0.35:
                f = r.choice(inherited)
                own.append((f, self.ann(params)))                # an overriding annotation
            # every base argument / annotation must only use the class's own parameters: guaranteed by ann(params)
            classes.append({"params": params, "bases": bases, "own": own})
        return classes

    def ancestors(self, classes, c):
        out = {c}
        for b, _ in classes[c]["bases"]:
            out |= self.ancestors(classes, b)
        return out

    def all_fields(self, classes, bases):
        out = []
        for b, _ in bases:
            out += [f for f, _ in classes[b]["own"]] + self.all_fields(classes, classes[b]["bases"])
        return sorted(set(out))


def spec(classes, c, args, f):
    """the specification, restated: annotation in the defining class with substitutions composed on the way down"""
    cls = classes[c]
    s = dict(zip(cls["params"], args))
    for fn, ann in cls["own"]:
        if fn == f:
            return subst(s, ann)
    for b, bargs in cls["bases"]:
        r = spec(classes, b, [subst(s, a) for a in bargs], f)
        if r is not None:
            return r
    return None


def fields_of(classes, c):
    """field ids in dataclass order: base fields first (MRO), own fields after, overrides keep the inherited position"""
    order = []

    def mro(c):
        out = [c]
        for b, _ in classes[c]["bases"]:
            for x in mro(b):
                if x not in out:
                    out.append(x)
        return out
    lin = mro(c)
    # python's real MRO for multiple inheritance (C3); with <= 2 bases over a chain this simple merge agrees except for
    # diamonds, which the generator produces rarely: fall back on the real class below
    for k in reversed(lin):
        for fn, _ in classes[k]["own"]:
            if fn not in order:
                order.append(fn)
    return order


def render(classes, kind="dataclass"):
    """build real classes; returns list of python classes (or None when python refuses the hierarchy)"""
    out = []
    for c, cls in enumerate(classes):
        bases = []
        for b, bargs in cls["bases"]:
            base = out[b]
            if classes[b]["params"]:
                a = tuple(py_ty(x) for x in bargs)
                base = base[a if len(a) > 1 else a[0]]
            bases.append(base)
        if cls["params"]:
            g = Generic[tuple(TVS[p] for p in cls["params"])]
            bases.append(g)
        ns = {"__annotations__": {f"f{fn}": py_ty(ann) for fn, ann in cls["own"]}}
        try:
            import types
            k = types.new_class(f"C{c}", tuple(bases), {}, lambda d, ns=ns: d.update(ns))
            if kind == "dataclass":
                k = dataclass(k)
            else:
                import attrs
                k = attrs.define(k)
        except TypeError:
            return None
        out.append(k)
    return out


def coq_table(classes):
    rows = []
    for c, cls in enumerate(classes):
        bases = coq_list([f"({b}, {coq_list([coq_tyx(a) for a in ba])})" for b, ba in cls["bases"]])
        own = coq_list([f"({fn}, {coq_tyx(a)})" for fn, a in cls["own"]])
        rows.append(f"| {c} => {{| params := {coq_list([str(p) for p in cls['params']])}; bases := {bases}; own := {own} |}}")
    return "(fun c : nat => match c with " + " ".join(rows) + " | _ => {| params := []; bases := []; own := [] |} end)"


def corpus():
    """hierarchies that run first on every seed: shapes random generation reaches rarely"""
    T = ("tv", 0)
    return [
        # Parent[T] -> Mid(Parent[int]) -> Leaf(Mid): a PLAIN leaf (no base written with arguments) below a binding class
        [{"params": [0], "bases": [], "own": [(0, T), (1, tc(LIST, T))]}, {"params": [], "bases": [(0, [tc(INT)])], "own": []},
         {"params": [], "bases": [(1, [])], "own": [(2, tc(STR))]}],
        [{"params": [0], "bases": [], "own": [(0, T)]}, {"params": [], "bases": [(0, [tc(LIST, tc(STR))])], "own": [(1, tc(INT))]},
         {"params": [], "bases": [(1, [])], "own": []}, {"params": [], "bases": [(2, [])], "own": [(2, tc(INT))]}],
        # a plain intermediate class binds the variable, the generic child re-uses the same variable for its own field
        [{"params": [0], "bases": [], "own": [(0, T)]}, {"params": [], "bases": [(0, [tc(INT)])], "own": []},
         {"params": [0], "bases": [(1, [])], "own": [(1, T)]}],
        # a generic child of a bound parent re-declares inherited fields with annotations spelled exactly like the parent's
        [{"params": [0], "bases": [], "own": [(0, T), (1, tc(OPT, T))]},
         {"params": [0], "bases": [(0, [tc(INT)])], "own": [(0, T), (1, tc(OPT, T))]}],
        # two parameters swapped on the way down, then partially bound
        [{"params": [0, 1], "bases": [], "own": [(0, ("tv", 0)), (1, ("tv", 1))]},
         {"params": [0, 1], "bases": [(0, [("tv", 1), ("tv", 0)])], "own": [(2, tc(DICT, tc(STR), ("tv", 0)))]},
         {"params": [1], "bases": [(1, [tc(STR), ("tv", 1)])], "own": []}],
    ]


def run(rep, tier, seed):
    from adaptix import Retort
    from adaptix.load_error import LoadError
    proof = lib.proof_stage(rep, PID)
    r = random.Random(seed)
    tg = TableGen(r)
    retort = Retort()
    n_tables = 120 if tier == "quick" else 3000
    pool_args = [tc(INT), tc(STR), tc(BOOL), tc(LIST, tc(INT)), tc(LIST, tc(STR)), tc(OPT, tc(INT))]
    coq_cases = []
    n_probe = n_fields = rejected_hier = 0
    samples = []
    fixed = corpus()
    for ti in range(n_tables + len(fixed)):
        classes = fixed[ti] if ti < len(fixed) else tg.table()
        for kind in (["dataclass"] if ti % 4 else ["dataclass", "attrs"]):
            pys = render(classes, kind)
            if pys is None:
                rejected_hier += 1
                continue
            c = len(classes) - 1
            params = classes[c]["params"]
            for variant in range(3):
                bare = variant == 2 and bool(params)
                args = [tc(ANY) for _ in params] if bare else [r.choice(pool_args) for _ in params]
                tp = pys[c]
                if params and not bare:
                    a = tuple(py_ty(x) for x in args)
                    tp = tp[a if len(a) > 1 else a[0]]
                import dataclasses as dc
                try:
                    names = [f.name for f in dc.fields(pys[c])] if kind == "dataclass" else [a.name for a in pys[c].__attrs_attrs__]
                except Exception:  # noqa: BLE001
                    continue
                expected = {}
                for nm in names:
                    fn = int(nm[1:])
                    e = spec(classes, c, args, fn)
                    if e is None or not closed(e):
                        expected = None
                        break
                    expected[nm] = e
                    coq_cases.append((f"({coq_table(classes)}, {c}, {coq_list([coq_tyx(a) for a in args])}, {fn})", show_tyx(e)))
                if not expected:
                    continue
                try:
                    loader = retort.get_loader(tp)
                except Exception as e:  # noqa: BLE001
                    rep.violation(f"creation:{type(e).__name__}", "property-violated",
                                  {"what": f"no loader for a generic model: {type(e).__name__}", "classes": classes, "args": args})
                    continue
                good = {nm: witness(e) for nm, e in expected.items()}
                for nm, e in expected.items():
                    n_fields += 1
                    for p in PROBES:
                        n_probe += 1
                        data = dict(good)
                        data[nm] = p
                        want = conforms(e, p)
                        try:
                            obj = loader(data)
                            got = True
                        except LoadError:
                            got = False
                        except Exception as ex:  # noqa: BLE001
                            got = type(ex).__name__
                        if got is not want:
                            rep.violation(f"field-type:{'accepts' if got is True else 'rejects'}:{show_tyx(e)[:12]}", "property-violated",
                                          {"what": f"field {nm} of {tp} should be loaded as {py_ty(e)}: datum {p!r} is "
                                                   f"{'accepted' if got is True else 'rejected' if got is False else got} "
                                                   f"but {'conforms' if want else 'does not conform'}",
                                           "classes": classes, "leaf": c, "args": args, "field": nm, "kind": kind, "bare": bare})
                            break
                if len(samples) < 3 and expected and len(classes) > 1:
                    samples.append({"classes": classes, "args": [show_tyx(a) for a in args],
                                    "expected_field_types": {k: show_tyx(v) for k, v in expected.items()}})
    header = ("From AV Require Import Model.Generic Model.Harness.\nFrom Coq Require Import Arith.\nLocal Open Scope string_scope.\n"
              "Fixpoint show_tyx (t : tyx) : string := match t with TV v => \"v\" ++ show_nat v | TC c args => "
              "\"c\" ++ show_nat c ++ \"[\" ++ join \",\" (map show_tyx args) ++ \"]\" end.\n"
              "Definition run (c : (nat -> cls) * nat * list tyx * nat) : string := match c with (t, cl, args, f) => "
              "match resolve t 8 cl args f with Some x => show_tyx x | None => \"none\" end end.\n")
    ce = CoqEval(PID, header, "run", shard=150)
    uniq = list(dict.fromkeys(coq_cases))
    bad = ce.compare(uniq)
    for k, err in ce.errors:
        rep.violation("coq-eval-failed", "correspondence-diff", {"shard": k, "coq_error": err}, no_input=True)
    for idx, got in bad[:4]:
        rep.violation(f"resolver-model-diff:{idx % 5}", "correspondence-diff",
                      {"what": "the model's resolver and the restated specification disagree", "case": uniq[idx][0][:400],
                       "spec": uniq[idx][1], "model": got})
    n_cross = cross_module_probe(rep)
    rep.cov.update({
        "evaluations": n_probe + len(uniq) + n_cross, "distinct_nontrivial": len(uniq),
        "rule": "class tables of 1-4 generic classes (0-3 type variables in shuffled order, 1-2 bases applied to argument hints "
                "over the class's own variables incl. nested generics, own and overriding annotations using the variables in any "
                "order) rendered as dataclasses (every 4th also as attrs); leaf parametrised from a 6-type pool or used bare; for "
                "every field 13 probe data, accepted iff they conform to the specified substituted type; model resolve evaluated on "
                "the same (table, class, args, field); non-trivial = distinct (table, field) obligations",
        "samples": samples or [{"note": "none"}],
        "distribution": {"tables": n_tables, "hierarchies_python_refused": rejected_hier, "fields_checked": n_fields,
                         "probes": n_probe, "model_cases": len(uniq), "model_mismatches": len(bad)},
    })
    import loadgen as lg
    lg.proof_problems(rep, PID, proof)


def cross_module_probe(rep):
    """a bare generic model whose type variable is declared in another module with a forward-reference bound / constraints:
    the implicit parameter names a class of the module that declares the TYPE VARIABLE"""
    import sys
    import types

    from adaptix import Retort
    from adaptix.load_error import LoadError
    a = types.ModuleType("verif_c16_mod_a")
    sys.modules[a.__name__] = a
    exec("from dataclasses import dataclass\nfrom typing import TypeVar\n"                               # noqa: S102
         "@dataclass\nclass Payload:\n    x: int\n"
         "@dataclass\nclass Alt:\n    z: int\n"
         "TP = TypeVar('TP', bound='Payload')\nTQ = TypeVar('TQ', 'Payload', 'Alt')\n", a.__dict__)
    mods = []
    for name, own in (("verif_c16_mod_b", "@dataclass\nclass Payload:\n    y: str\n@dataclass\nclass Alt:\n    w: str\n"),
                      ("verif_c16_mod_c", "")):
        m = types.ModuleType(name)
        sys.modules[name] = m
        exec("from dataclasses import dataclass\nfrom typing import Generic, List\nfrom verif_c16_mod_a import TP, TQ\n" + own +   # noqa: S102
             "@dataclass\nclass Signed(Generic[TP]):\n    body: TP\n    more: List[TP]\n"
             "@dataclass\nclass Either(Generic[TQ]):\n    v: TQ\n"
             "@dataclass\nclass Child(Signed[TP]):\n    k: int = 0\n", m.__dict__)
        mods.append(m)
    n = 0
    for m in mods:
        label = "same-named classes in the generic's module" if hasattr(m, "Payload") else "names absent from the generic's module"
        cases = [
            (m.Signed, {"body": {"x": 1}, "more": [{"x": 2}]}, m.Signed(a.Payload(1), [a.Payload(2)])),
            (m.Signed, {"body": {"y": "s"}, "more": []}, None),
            (m.Signed[a.Payload], {"body": {"x": 1}, "more": []}, m.Signed(a.Payload(1), [])),
            (m.Child, {"body": {"x": 1}, "more": [], "k": 3}, m.Child(a.Payload(1), [], 3)),
            (m.Child, {"body": {"y": "s"}, "more": []}, None),
            (m.Either, {"v": {"x": 1}}, m.Either(a.Payload(1))),
            (m.Either, {"v": {"z": 1}}, m.Either(a.Alt(1))),
            (m.Either, {"v": {"y": "s"}}, None),
        ]
        for tp, data, want in cases:
            n += 1
            try:
                got = ("ok", Retort().load(data, tp))
            except LoadError:
                got = ("rejected", None)
            except Exception as e:  # noqa: BLE001
                got = ("raises " + type(e).__name__, str(e)[:100])
            ok = got == ("ok", want) if want is not None else got[0] == "rejected"
            if not ok:
                rep.violation(f"cross-module-bound:{getattr(tp, '__name__', str(tp))}:{'accept' if want is not None else 'reject'}",
                              "property-violated",
                              {"what": f"generic model {tp} ({label}), datum {data!r}: expected "
                                       f"{'the load to give ' + repr(want) if want is not None else 'a LoadError'}, got {got!r}"})
            if want is not None and got[0] == "ok":
                try:
                    back = Retort().dump(got[1], tp)
                    if back != data:
                        rep.violation(f"cross-module-bound:{getattr(tp, '__name__', str(tp))}:dump", "property-violated",
                                      {"what": f"generic model {tp} ({label}): dump gives {back!r}, expected {data!r}"})
                except Exception as e:  # noqa: BLE001
                    rep.violation(f"cross-module-bound:{getattr(tp, '__name__', str(tp))}:dump-raises", "property-violated",
                                  {"what": f"generic model {tp} ({label}): dump raises {type(e).__name__}: {str(e)[:100]}"})
    return n


def replay(rep, body):
    from adaptix import Retort
    from adaptix.load_error import LoadError
    if body.get("signature", "").startswith("cross-module-bound:"):
        import lib
        scratch = lib.ScratchReport(rep.pid, "quick", 0)
        cross_module_probe(scratch)
        print("recorded:", body.get("what"))
        if body["signature"] in scratch.found:
            print("reproduced")
            rep.violation(body["signature"], body["kind"], body)
        else:
            print("does not reproduce on the current tree")
        return
    if "classes" not in body or "field" not in body:
        print("recorded:", body.get("what"))
        rep.violation(body["signature"], body["kind"], body, no_input=body.get("no_failing_input_found", False))
        return

    def fix(t):
        if isinstance(t, list) and t and t[0] == "tv":
            return ("tv", t[1])
        if isinstance(t, list) and t and t[0] == "tc":
            return ("tc", t[1], [fix(a) for a in t[2]])
        return t
    classes = [{"params": c["params"], "bases": [(b, [fix(a) for a in ba]) for b, ba in c["bases"]],
                "own": [(fn, fix(a)) for fn, a in c["own"]]} for c in body["classes"]]
    args = [fix(a) for a in body["args"]]
    pys = render(classes, body.get("kind", "dataclass"))
    c = body["leaf"]
    tp = pys[c]
    if classes[c]["params"] and not body.get("bare"):
        a = tuple(py_ty(x) for x in args)
        tp = tp[a if len(a) > 1 else a[0]]
    import dataclasses as dc
    names = [f.name for f in dc.fields(pys[c])] if body.get("kind", "dataclass") == "dataclass" else [a.name for a in pys[c].__attrs_attrs__]
    expected = {nm: spec(classes, c, args, int(nm[1:])) for nm in names}
    loader = Retort().get_loader(tp)
    good = {nm: witness(e) for nm, e in expected.items()}
    bad = False
    nm = body["field"]
    for p in PROBES:
        data = dict(good)
        data[nm] = p
        try:
            loader(data)
            got = True
        except LoadError:
            got = False
        want = conforms(expected[nm], p)
        print(f"field {nm}: {p!r} accepted={got} conforms={want}")
        bad |= got is not want
    if bad:
        rep.violation(body["signature"], body["kind"], body)
