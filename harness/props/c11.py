"""C11 - results never depend on call history; retorts are immutable.
Model: coq/Model/Cache.v, theorems: coq/Props/C11.v (history independence from per-site key soundness; the list of
cached_call sites regenerated from /repo must equal the reviewed list).

Histories: sequences of facade calls (load / dump / get_loader / failing requests / convert with per-call recipes) over a
pool of mutually confusable types on ONE retort; every call's outcome is compared with what a fresh retort gives for the
same call.  Exhaustive over ordered pairs of the pool, random longer histories beyond.  replace() / extend() must leave
the original retort and every loader already obtained from it unchanged, and must not inherit its caches.
"""
import enum
import itertools
import random
import typing
from dataclasses import dataclass, field
from typing import Annotated, Any, Dict, List, Literal, NewType, Optional, Sequence, Tuple, Union

import lib

PID = "C11"


class E1(enum.Enum):
    A = 1
    B = 2


class E2(enum.Enum):
    A = 1
    B = 2


@dataclass
class M1:
    x: int
    y: str = "d"


@dataclass
class M2:
    x: int
    y: str = "d"


@dataclass
class M3:
    x: bool
    y: str = "d"


@dataclass
class MD0:
    v: int = 0


@dataclass
class MDF:
    v: bool = False


def _same_named(module_name):
    """a class named User in a module of its own: two of them differ in nothing but their module"""
    import sys
    import types as _types
    m = _types.ModuleType(module_name)
    sys.modules[module_name] = m
    ns = {"__module__": module_name, "__annotations__": {"x": int, "y": str}, "y": "d",
          "__repr__": lambda self: f"{module_name}.User(x={self.x!r}, y={self.y!r})"}
    cls = dataclass(repr=False)(type("User", (), ns))
    setattr(m, "User", cls)
    return cls


UserV1 = _same_named("verif_c11_api_v1")
UserV2 = _same_named("verif_c11_api_v2")

NA = NewType("NA", int)
NB = NewType("NB", str)


def pool():
    return [
        Literal[0, 1], Literal[False, True], Literal[1], Literal[True], Literal[-1], Literal[-2], Literal[0], Literal[False],
        Literal["a"], Literal[b"a"], Literal[1, "a"], Literal[True, "a"], Literal[E1.A], Literal[E2.A], Literal[1, E1.A],
        List[int], list[int], Sequence[int], List[bool], List[Literal[0]], List[Literal[False]], Tuple[int, ...], Tuple[int],
        Union[int, str], Union[str, int], Optional[int], Optional[bool], Optional[Literal[1]], Optional[Literal[True]],
        Union[Literal[0], str], Union[Literal[False], str],
        Dict[str, int], Dict[str, bool], Dict[int, int],
        M1, M2, M3, MD0, MDF, E1, E2, NA, NB, int, bool, str,
        Annotated[int, 0], Annotated[int, False], Annotated[bool, 0],
        List[M1], List[M2], Optional[M3],
        Union[UserV1, UserV2], Union[UserV2, UserV1], List[Union[UserV2, UserV1]],
    ]


DATA = [0, 1, True, False, -1, -2, "a", "1", b"a", "YQ==", [1], [True], [0], [False], {"x": 1}, {"x": True}, {"x": 1, "y": "q"},
        {"a": 1}, {"a": True}, {1: 1}, None, {}, [], (1,), 2]


def tname(tp):
    return str(tp).replace("props.c11.", "").replace("typing.", "")


def outcome(fn):
    from adaptix.load_error import LoadError
    try:
        v = fn()
        return ("ok", repr(v), type(v).__name__)
    except LoadError as e:
        return ("load_error", type(e).__name__)
    except Exception as e:  # noqa: BLE001
        return ("error", type(e).__name__)


def ops_for(tp, r=None):
    """the observable facade calls on one type: load of every datum, dump of values of the type where cheap"""
    return [("load", tp, d) for d in DATA]


def run_op(retort, op):
    kind, tp, d = op
    if kind == "load":
        return outcome(lambda: retort.load(d, tp))
    if kind == "dump":
        return outcome(lambda: retort.dump(d, tp))
    if kind == "get_loader":
        return outcome(lambda: bool(retort.get_loader(tp)))
    raise ValueError(kind)


def run(rep, tier, seed):
    from adaptix import DebugTrail, Retort, loader, name_mapping
    proof = lib.proof_stage(rep, PID, extra_trusted=[
        "equality / hashing of typing objects and the lru_cache of normalize_type are interpreter and library facts observed "
        "through behaviour only"])
    r = random.Random(seed)
    P = pool()
    cfgs = [dict(strict_coercion=True, debug_trail=DebugTrail.ALL), dict(strict_coercion=False, debug_trail=DebugTrail.DISABLE)]
    if tier != "quick":
        cfgs += [dict(strict_coercion=True, debug_trail=DebugTrail.FIRST), dict(strict_coercion=False, debug_trail=DebugTrail.ALL)]
    n = 0
    diffs = 0
    samples = []
    for ci, cfg in enumerate(cfgs):
        fresh = {}
        for i, tp in enumerate(P):
            rt = Retort(**cfg)
            fresh[i] = [run_op(rt, op) for op in ops_for(tp)]
        # ---- all ordered pairs: A first, then B, on one retort
        pairs = list(itertools.permutations(range(len(P)), 2))
        if tier == "quick":
            pairs = [p for p in pairs if (p[0] * 31 + p[1] * 17 + ci) % 3 == 0] + \
                    [p for p in pairs if p[0] < 32 and p[1] < 32 and (p[0] * 31 + p[1] * 17 + ci) % 3 != 0][:400]
        for a, b in pairs:
            rt = Retort(**cfg)
            for op in ops_for(P[a])[:6]:
                run_op(rt, op)
            got = [run_op(rt, op) for op in ops_for(P[b])]
            n += len(got)
            if got != fresh[b]:
                diffs += 1
                k = next(i for i in range(len(got)) if got[i] != fresh[b][i])
                rep.violation(f"history:{tname(P[a])[:30]}~{tname(P[b])[:30]}", "property-violated",
                              {"what": f"after requests for {tname(P[a])} the same retort answers load({DATA[k]!r}, {tname(P[b])}) with "
                                       f"{got[k]}, a fresh retort with {fresh[b][k]}",
                               "first": tname(P[a]), "then": tname(P[b]), "datum": repr(DATA[k]), "config": str(cfg)})
        # ---- longer random histories incl. failing requests and > 128 distinct hints (lru eviction)
        for h in range(12 if tier == "quick" else 200):
            rt = Retort(**cfg)
            order = [r.randrange(len(P)) for _ in range(r.randint(3, 9))]
            if h % 4 == 0:
                for k in range(140):       # flood the normaliser's lru_cache
                    try:
                        rt.get_loader(Tuple[tuple([int] * (k % 7 + 1) + [str] * (k // 7 + 1))])
                    except Exception:  # noqa: BLE001
                        pass
            for step, i in enumerate(order):
                if r.random() < 0.2:
                    try:
                        rt.get_loader(typing.Callable[[int], str])      # a request that fails
                    except Exception:  # noqa: BLE001
                        pass
                got = [run_op(rt, op) for op in ops_for(P[i])]
                n += len(got)
                if got != fresh[i]:
                    diffs += 1
                    k = next(j for j in range(len(got)) if got[j] != fresh[i][j])
                    rep.violation(f"history-long:{tname(P[i])[:40]}", "property-violated",
                                  {"what": f"history-dependent answer for load({DATA[k]!r}, {tname(P[i])}): {got[k]} vs fresh {fresh[i][k]}",
                                   "history": [tname(P[j]) for j in order[:step]], "config": str(cfg)})
            if len(samples) < 2:
                samples.append({"history": [tname(P[j]) for j in order], "config": str(cfg)})
    # ---- immutability: replace / extend
    nim = immutability(rep, r) + dump_and_convert_histories(rep, tier)
    rep.cov.update({
        "evaluations": n + nim, "distinct_nontrivial": len(P) * (len(P) - 1),
        "rule": f"pool of {len(P)} mutually confusable types (Literal 0/1 vs False/True, -1 vs -2, str vs bytes vs enum literals, "
                "List / list / Sequence, unions in both orders, Optional[Literal], models with equal shapes, equal-valued enums, "
                "NewTypes, Annotated variants); on one retort: requests for A then all 25 probe loads for B, compared with a fresh "
                "retort, over ordered pairs of the pool (all of them in the thorough tier); random histories of 3-9 types with "
                "failing requests in between and >128 distinct hints to evict the normaliser's lru cache; replace() / extend() "
                "scenarios; non-trivial = ordered pairs of distinct pool types",
        "samples": samples or [{"note": "none"}],
        "distribution": {"probe_loads": n, "history_differences": diffs, "immutability_checks": nim, "configs": len(cfgs)},
    })
    import loadgen as lg
    lg.proof_problems(rep, PID, proof)


@dataclass
class Ev:
    id: int


@dataclass
class UserEv(Ev):
    actor: str = "u"


@dataclass
class AudEv(Ev):
    audit: int = 0


@dataclass
class AudUserEv(UserEv, AudEv):
    pass


def dump_and_convert_histories(rep, tier):
    """(a) dumping through unions of classes of one hierarchy (with a diamond): the dumper chosen for a value's class must
    not depend on which other classes went through the same dumper before; every sequence of 2-3 values on one retort and on
    one dumper obtained with get_dumper, each result compared with a fresh retort's.  (b) converters: every sequence of 2-3
    calls among convert / get_converter with no recipe and with two different per-call recipes on one retort, each result
    compared with the same call on a fresh retort."""
    import adaptix.conversion as conv
    from adaptix import Retort
    from adaptix.conversion import coercer, link_constant
    from adaptix import P as _P
    n = 0
    vals = [Ev(1), UserEv(2, "bob"), AudEv(3, 7), AudUserEv(id=4, actor="eve", audit=9)]
    unions = [Union[Ev, AudEv], Union[Ev, UserEv], Union[UserEv, AudEv, int], Union[Ev, AudEv, UserEv], Union[AudEv, str]]
    for U in unions:
        fresh = [outcome(lambda v=v: Retort().dump(v, U)) for v in vals]
        seqs = list(itertools.permutations(range(len(vals)), 2)) + list(itertools.permutations(range(len(vals)), 3))
        if tier == "quick":
            seqs = seqs[::2]
        bad = False
        for seq in seqs:
            for via in ("retort", "dumper"):
                rt = Retort()
                f = (lambda v: rt.dump(v, U)) if via == "retort" else rt.get_dumper(U)
                for k in seq:
                    n += 1
                    got = outcome(lambda k=k: f(vals[k]))
                    if got != fresh[k] and not bad:
                        bad = True
                        rep.violation(f"dump-history:{tname(U)[:40]}", "property-violated",
                                      {"what": f"dump({vals[k]!r}, {tname(U)}) after dumping {[repr(vals[j]) for j in seq[:seq.index(k)]]} "
                                               f"through the same {via} gives {got}; a fresh retort gives {fresh[k]}"})

    @dataclass
    class S:
        a: int
        b: int = 5

    @dataclass
    class D:
        a: str
        b: int = 6

    @dataclass
    class D2:
        a: int
        b: int = 6
    R1 = [coercer(int, str, lambda v: f"<{v}>")]
    R2 = [coercer(int, str, lambda v: f"[{v}]"), link_constant(_P[D].b, value=77)]
    R3 = [link_constant(_P[D2].b, value=88)]
    calls = {
        "convert(S,D)": lambda rt: rt.convert(S(1), D),
        "convert(S,D,recipe=R1)": lambda rt: rt.convert(S(1), D, recipe=R1),
        "convert(S,D,recipe=R2)": lambda rt: rt.convert(S(1), D, recipe=R2),
        "get_converter(S,D)": lambda rt: rt.get_converter(S, D)(S(1)),
        "get_converter(S,D,recipe=R1)": lambda rt: rt.get_converter(S, D, recipe=R1)(S(1)),
        "get_converter(S,D,recipe=R2)": lambda rt: rt.get_converter(S, D, recipe=R2)(S(1)),
        "convert(S,D2)": lambda rt: rt.convert(S(1), D2),
        "convert(S,D2,recipe=R3)": lambda rt: rt.convert(S(1), D2, recipe=R3),
        "get_converter(S,D2)": lambda rt: rt.get_converter(S, D2)(S(1)),
        "get_converter(S,D2,recipe=R3)": lambda rt: rt.get_converter(S, D2, recipe=R3)(S(1)),
    }
    fresh = {k: outcome(lambda f=f: f(conv.ConversionRetort())) for k, f in calls.items()}
    names = list(calls)
    seqs = list(itertools.permutations(names, 2)) + ([] if tier == "quick" else list(itertools.permutations(names, 3)))
    reported = set()
    for seq in seqs:
        rt = conv.ConversionRetort()
        for i, k in enumerate(seq):
            n += 1
            got = outcome(lambda k=k: calls[k](rt))
            if got != fresh[k] and k not in reported:
                reported.add(k)
                rep.violation(f"convert-history:{k}", "property-violated",
                              {"what": f"{k} after {list(seq[:i])} on one retort gives {got}; a fresh retort gives {fresh[k]}"})
    return n


def immutability(rep, r):
    from adaptix import DebugTrail, Retort, loader
    n = 0
    probes = [(int, "12"), (List[int], ["1"]), (M1, {"x": "3"}), (bool, 1), (Optional[int], "4")]
    for warm in (False, True):
        base = Retort(strict_coercion=True, debug_trail=DebugTrail.ALL)
        held = {}
        if warm:
            for tp, d in probes:
                run_op(base, ("load", tp, d))
                held[tname(tp)] = base.get_loader(tp)
        before = [run_op(base, ("load", tp, d)) for tp, d in probes]
        variants = {
            "replace(strict_coercion=False)": (lambda: base.replace(strict_coercion=False), Retort(strict_coercion=False, debug_trail=DebugTrail.ALL)),
            "replace(debug_trail=DISABLE)": (lambda: base.replace(debug_trail=DebugTrail.DISABLE), Retort(strict_coercion=True, debug_trail=DebugTrail.DISABLE)),
            "replace(strict_coercion=False, debug_trail=FIRST)": (lambda: base.replace(strict_coercion=False, debug_trail=DebugTrail.FIRST),
                                                                 Retort(strict_coercion=False, debug_trail=DebugTrail.FIRST)),
            "extend(loader(int))": (lambda: base.extend(recipe=[loader(int, lambda x: 777)]), Retort(recipe=[loader(int, lambda x: 777)])),
        }
        for name, (mk, reference) in variants.items():
            clone = mk()
            n += 1
            got = [run_op(clone, ("load", tp, d)) for tp, d in probes]
            want = [run_op(reference, ("load", tp, d)) for tp, d in probes]
            if got != want:
                k = next(i for i in range(len(got)) if got[i] != want[i])
                rep.violation(f"clone:{name}:{'warm' if warm else 'cold'}", "property-violated",
                              {"what": f"{name} of a {'used' if warm else 'fresh'} retort answers load({probes[k][1]!r}, {tname(probes[k][0])}) "
                                       f"with {got[k]}; a retort constructed with those options gives {want[k]}"})
            after = [run_op(base, ("load", tp, d)) for tp, d in probes]
            if after != before:
                rep.violation(f"original-changed:{name}", "property-violated",
                              {"what": f"{name} changed the behaviour of the original retort", "before": str(before), "after": str(after)})
            for tnm, ld in held.items():
                tp, d = next(p for p in probes if tname(p[0]) == tnm)
                if outcome(lambda: ld(d)) != before[[tname(p[0]) for p in probes].index(tnm)]:
                    rep.violation(f"held-loader-changed:{name}", "property-violated",
                                  {"what": f"a loader obtained before {name} changed its behaviour", "type": tnm})
    # converters: a per-call recipe must not leak
    import adaptix.conversion as conv
    from adaptix.conversion import coercer

    @dataclass
    class S:
        a: int

    @dataclass
    class D:
        a: str
    rt = conv.ConversionRetort()
    n += 1
    r1 = outcome(lambda: rt.convert(S(1), D, recipe=[coercer(int, str, lambda v: f"<{v}>")]))
    r2 = outcome(lambda: rt.convert(S(1), D))
    fresh2 = outcome(lambda: conv.ConversionRetort().convert(S(1), D))
    if r2 != fresh2:
        rep.violation("convert-history", "property-violated",
                      {"what": f"convert(S, D) after convert(S, D, recipe=[coercer]) gives {r2}; a fresh retort gives {fresh2}"})
    return n


def replay(rep, body):
    print("recorded:", body.get("what"))
    from adaptix import DebugTrail, Retort
    if "first" in body:
        P = {tname(t): t for t in pool()}
        cfg = eval(body["config"], {"DebugTrail": DebugTrail})  # noqa: S307  (our own repr of two options)
        a, b = P[body["first"]], P[body["then"]]
        rt = Retort(**cfg)
        for op in ops_for(a)[:6]:
            run_op(rt, op)
        got = [run_op(rt, op) for op in ops_for(b)]
        fresh = [run_op(Retort(**cfg), op) for op in ops_for(b)]
        print("same as fresh:", got == fresh)
        if got != fresh:
            rep.violation(body["signature"], body["kind"], body)
    else:
        rep.violation(body["signature"], body["kind"], body, no_input=body.get("no_failing_input_found", False))
