"""C02 - non-model loaders and dumpers implement exactly the documented per-type rules.
Models: coq/Model/Load.v, coq/Model/Dump.v; theorems: coq/Props/C02.v.

Part 1: loaders on ARBITRARY data (35% look-alikes and junk), every spelling of every container, 6 configurations.
Part 2: dumpers on well-typed values, including unions dumped by runtime class through a user class hierarchy with a
        diamond (nearest ancestor in the MRO), 3 debug modes.
Part 3: the base64 representation of bytes-like types against a reference built on the standard library.
"""
import base64
import binascii
import io
import random
import re
from typing import List, Optional, Tuple, Union

import lib
import loadgen as lg
from lib import CoqEval, coq_list

PID = "C02"


# ----------------------------------------------------------------------------------------------------------------------
# part 2: dumpers

def make_classes():
    class K1:
        pass

    class K2(K1):
        pass

    class K3(K1):
        pass

    class K4(K2, K3):     # diamond: mro K4, K2, K3, K1
        pass

    class K5:
        pass
    return {1: K1, 2: K2, 3: K3, 4: K4, 5: K5}


USER_MRO = {1: [1], 2: [2, 1], 3: [3, 1], 4: [4, 2, 3, 1], 5: [5]}
DUMP_ITER = {"KList": "list", "KTuple": "TupleVar", "KSet": "Set", "KFrozenSet": "FrozenSet"}


class DumpGen:
    def __init__(self, rnd):
        self.r = rnd

    def ty(self, d=3, in_union=False):
        r = self.r
        k = r.random()
        if d <= 0 or k < 0.3:
            return r.choice([("TInt",), ("TStr",), ("TBool",), ("TFloat",), ("TNone",), ("TUser", r.randint(1, 5)),
                             ("TLit", r.sample(lg.LITS, r.randint(1, 3)))])
        if k < 0.5:
            kind = r.choice(["KList", "KTuple", "KSet", "KFrozenSet"])
            el = self.hashable(d - 1) if kind in ("KSet", "KFrozenSet") else self.ty(d - 1)
            return ("TIter", kind, el, DUMP_ITER[kind])
        if k < 0.6:
            return ("TTuple", [self.ty(d - 1) for _ in range(r.randint(0, 3))])
        if k < 0.72:
            return ("TDict", self.hashable(d - 1), self.ty(d - 1), "dict")
        if k < 0.82 or in_union:
            inner = self.ty(d - 1, True)
            return ("TOpt", inner) if inner[0] not in ("TOpt", "TUnion", "TNone") else inner
        members, seen = [], set()
        for _ in range(r.randint(2, 4)):
            m = self.ty(d - 1, True)
            if m[0] in ("TOpt", "TUnion"):
                continue
            key = lg.origin_key(m) if m[0] != "TUser" else f"user{m[1]}"
            if key in seen:
                continue
            seen.add(key)
            members.append(m)
        if len(members) < 2:
            return members[0] if members else ("TInt",)
        if len(members) == 2 and any(m[0] == "TNone" for m in members):
            return ("TOpt", next(m for m in members if m[0] != "TNone"))
        return ("TUnion", members)

    def hashable(self, d):
        r = self.r
        return r.choice([("TInt",), ("TStr",), ("TBool",), ("TTuple", [("TInt",), ("TStr",)]),
                         ("TLit", r.sample(lg.LITS, 2))])

    def value(self, t):
        """a value OF the type (what a user would hand to dump)"""
        r = self.r
        k = t[0]
        if k == "TInt":
            return ("VInt", r.choice([0, 1, 5, -3])) if r.random() < 0.85 else ("VBool", True)   # a bool is an int
        if k == "TFloat":
            return ("VFloat", r.choice([0, 2, -1]))
        if k == "TBool":
            return ("VBool", r.random() < 0.5)
        if k == "TStr":
            return ("VStr", r.choice(["", "a", "bc"]))
        if k == "TNone":
            return ("VNone",)
        if k == "TUser":
            # an instance of the class or of one of its subclasses
            subs = [n for n, m in USER_MRO.items() if t[1] in m]
            return ("VObj", r.choice(subs))
        if k == "TLit":
            l = r.choice(t[1])
            return {"LInt": ("VInt", l[1]), "LBool": ("VBool", l[1]), "LStr": ("VStr", l[1])}[l[0]]
        if k == "TIter":
            els = [self.value(t[2]) for _ in range(r.choice([0, 1, 2, 3]))]
            shape = {"KList": "VList", "KTuple": "VTuple", "KSet": "VSet", "KFrozenSet": "VFrozenSet"}[t[1]]
            if shape in ("VSet", "VFrozenSet"):
                uniq = []
                for e in els:
                    if not any(lg.py_eq_key(e, u) for u in uniq):
                        uniq.append(e)
                els = uniq[:1]          # iteration order of larger sets is not the model's business
            return (shape, els)
        if k == "TTuple":
            return ("VTuple", [self.value(x) for x in t[1]])
        if k == "TDict":
            items, seen = [], []
            for _ in range(r.choice([0, 1, 2])):
                kk = self.value(t[1])
                if any(lg.py_eq_key(kk, s) for s in seen):
                    continue
                seen.append(kk)
                items.append((kk, self.value(t[2])))
            return ("VDict", items)
        if k == "TOpt":
            return ("VNone",) if r.random() < 0.3 else self.value(t[1])
        return self.value(r.choice(t[1]))


def dump_retort(classes, mode):
    from adaptix import DebugTrail, Retort, dumper
    return Retort(debug_trail=getattr(DebugTrail, mode),
                  recipe=[dumper(cls, lambda x, n=n: f"user{n}") for n, cls in classes.items()])


def py_ty_d(classes, t):
    k = t[0]
    if k == "TUser":
        return classes[t[1]]
    if k == "TIter":
        f = next(f for n, f, o in lg.ITER_SPELL[t[1]] if n == t[3])
        return f(py_ty_d(classes, t[2]))
    if k == "TTuple":
        return Tuple[tuple(py_ty_d(classes, x) for x in t[1])] if t[1] else Tuple[()]
    if k == "TDict":
        return dict[py_ty_d(classes, t[1]), py_ty_d(classes, t[2])]
    if k == "TOpt":
        return Optional[py_ty_d(classes, t[1])]
    if k == "TUnion":
        return Union[tuple(py_ty_d(classes, x) for x in t[1])]
    return lg.py_ty(t)


def py_val_d(classes, v):
    k = v[0]
    if k == "VObj":
        return classes[v[1]]()
    if k in ("VList", "VTuple", "VSet", "VFrozenSet"):
        xs = [py_val_d(classes, x) for x in v[1]]
        return {"VList": list, "VTuple": tuple, "VSet": set, "VFrozenSet": frozenset}[k](xs)
    if k == "VDict":
        return {py_val_d(classes, a): py_val_d(classes, b) for a, b in v[1]}
    return lg.py_val(v)


def union_order(t):
    """members of a union in the order the normaliser puts them (the dump model picks by class, so only needed for
    rendering stability)"""
    return t


def part_dump(rep, tier, seed):
    r = random.Random(seed + 11)
    g = DumpGen(r)
    classes = make_classes()
    n = 500 if tier == "quick" else 8000
    cases = []
    for _ in range(n):
        t = g.ty(r.choice([1, 2, 2, 3]))
        cases.append((t, g.value(t)))
    # directed: every (union of two user classes) x (instance of every class)
    for a in range(1, 6):
        for b in range(1, 6):
            if a != b:
                for inst in range(1, 6):
                    cases.append((("TUnion", [("TUser", a), ("TUser", b)]), ("VObj", inst)))
    rts = {m: dump_retort(classes, m) for m in lg.MODES}
    coq_cases, expected = [], []
    disagreements = 0
    for t, v in cases:
        outs = []
        for m in lg.MODES:
            try:
                outs.append("OK " + lg.show_py(rts[m].dump(py_val_d(classes, v), py_ty_d(classes, t))))
            except BaseException as e:  # noqa: BLE001
                outs.append("FAIL")
        if len(set(outs)) != 1:
            disagreements += 1
            rep.violation(f"dump-modes:{t[0]}", "property-violated",
                          {"what": "debug modes disagree on a dump", "type": t, "value": v, "outcomes": dict(zip(lg.MODES, outs))})
        expected.append(outs[2])
        coq_cases.append((f"({lg.coq_ty(t)}, {lg.coq_val(v)})", outs[2]))
    mro_tbl = "fun n => match n with " + " | ".join(f"{n} => {coq_list([str(x) for x in m])}" for n, m in USER_MRO.items()) + " | _ => [n] end"
    header = lg.SHOW_HEADER + ("From AV Require Import Model.Dump.\n"
                               f"Definition UM : nat -> list nat := ({mro_tbl}).\n"
                               'Definition run (c : ty * pv) : string := match dump UM (fst c) (snd c) with '
                               'Some d => "OK " ++ show_pv d | None => "FAIL" end.\n')
    ce = CoqEval(PID + "_dump", header, "run", shard=400)
    bad = ce.compare(coq_cases)
    for k, err in ce.errors:
        rep.violation("coq-eval-failed:dump", "correspondence-diff", {"shard": k, "coq_error": err}, no_input=True)
    seen = set()
    for idx, got in bad:
        t, v = cases[idx]
        sig = f"dump-diff:{t[0]}:{v[0]}"
        if sig in seen or len(seen) >= 5:
            continue
        seen.add(sig)
        rep.violation(sig, "correspondence-diff", {"type": t, "value": v, "library": expected[idx], "model": got,
                                                   "user_class_mro": USER_MRO})
    return len(cases), len(bad), cases, expected


# ----------------------------------------------------------------------------------------------------------------------
# part 3: base64

B64_REF = re.compile(rb"[A-Za-z0-9+/]*={0,2}")


def b64_reference(s):
    """documented representation: a base64 string (standard alphabet, padded); None = must be rejected"""
    if not isinstance(s, str):
        return None
    try:
        raw = s.encode("ascii")
    except UnicodeEncodeError:
        return None
    if not B64_REF.fullmatch(raw):          # only the base64 alphabet followed by at most two '='
        return None
    try:
        return binascii.a2b_base64(raw)       # the standard library decides about padding and length
    except binascii.Error:
        return None


def part_b64(rep, tier, seed):
    from adaptix import DebugTrail, Retort
    from adaptix.load_error import LoadError
    r = random.Random(seed + 5)
    payloads = [b"", b"a", b"ab", b"abc", b"abcd", bytes(range(256)), b"\xff\xfe", b"hello world"] + \
        [bytes(r.randrange(256) for _ in range(r.randint(1, 40))) for _ in range(60 if tier == "quick" else 600)]
    cands = []
    for p in payloads:
        good = base64.b64encode(p).decode()
        cands += [good, good + "\n", good + "\r\n", "\n" + good, good + " ", good.rstrip("="), good + "=", good + "==",
                  good.replace("+", "-").replace("/", "_"), good[:1] + " " + good[1:], good[:-1] if good else "=", good.lower()]
    cands += ["\n", "=", "====", "A", "AA", "AAA", "AA==\n", "é", "YQ", 5, None, b"YQ==", ["YQ=="]]
    n = bad = 0
    for sc in (True, False):
        for mode in lg.MODES:
            rt = Retort(strict_coercion=sc, debug_trail=getattr(DebugTrail, mode))
            for tp, conv in ((bytes, lambda b: b), (bytearray, bytes), (io.BytesIO, lambda b: b.getvalue())):
                ld = rt.get_loader(tp)
                for c in cands:
                    n += 1
                    ref = b64_reference(c)
                    try:
                        got = conv(ld(c))
                    except LoadError:
                        got = None
                    except BaseException as e:  # noqa: BLE001
                        got = "X:" + type(e).__name__
                    if got != ref:
                        bad += 1
                        rep.violation(f"base64:{tp.__name__}:{'accepts' if ref is None else 'rejects-or-differs'}",
                                      "property-violated",
                                      {"what": "bytes-like loader deviates from the base64 representation",
                                       "type": tp.__name__, "datum": repr(c), "loader": repr(got), "reference": repr(ref),
                                       "strict_coercion": sc, "debug_trail": mode})
                dm = rt.get_dumper(bytes)
                for p in payloads[:20]:
                    n += 1
                    if dm(p) != base64.b64encode(p).decode():
                        bad += 1
                        rep.violation("base64:dump", "property-violated", {"payload": repr(p), "dumped": dm(p)})
    return n, bad


def run(rep, tier, seed):
    proof = lib.proof_stage(rep, PID, extra_trusted=[
        "base64 is not modelled in Coq: bytes-like loaders are checked against a reference built on the standard library"])
    r = random.Random(seed)
    tg, vg = lg.TyGen(r), lg.ValGen(r, junk_rate=0.35)
    n_types = 220 if tier == "quick" else 4000
    cases = []
    for _ in range(n_types):
        t = tg.ty(r.choice([0, 1, 2, 2, 3]))
        for _ in range(5):
            sc = r.random() < 0.5
            v = vg.value(t, sc)
            mi = r.randrange(3)
            cases.append((mi, sc, t, v))
    # exhaustive block: every depth-1 type x a pool of look-alikes, strict and lax, ALL mode
    pool = [("VNone",), ("VBool", True), ("VInt", 1), ("VFloat", 1), ("VStr", "1"), ("VStr", "ab"), ("VBytes", "1"),
            ("VList", [("VInt", 1)]), ("VTuple", [("VInt", 1)]), ("VSet", [("VInt", 1)]), ("VDict", [(("VInt", 0), ("VInt", 1))]),
            ("VIter", [("VInt", 1)]), ("VObj", 1), ("VList", []), ("VStr", "")]
    depth1 = [("TInt",), ("TFloat",), ("TBool",), ("TStr",), ("TNone",), ("TAny",), ("TLit", [("LInt", 1), ("LStr", "ab")]),
              ("TLit", [("LBool", True)])]
    for kind, spells in lg.ITER_SPELL.items():
        depth1 += [("TIter", kind, ("TInt",), sp[0]) for sp in spells]
    depth1 += [("TDict", ("TInt",), ("TInt",), sp[0]) for sp in lg.DICT_SPELL]
    depth1 += [("TTuple", [("TInt",)]), ("TTuple", []), ("TOpt", ("TInt",)), ("TUnion", [("TInt",), ("TStr",), ("TNone",)])]
    for t in depth1:
        for v in pool:
            for sc in (True, False):
                cases.append((2, sc, t, v))
    # types equal under == / hash but different (Literal[0, 1] vs Literal[False, True], ...) requested from the same retorts,
    # bare and nested: each must keep its own rule whatever was requested before
    lits = [[("LInt", 0), ("LInt", 1)], [("LBool", False), ("LBool", True)], [("LInt", 1), ("LStr", "a")],
            [("LBool", True), ("LStr", "a")], [("LInt", 0)], [("LBool", False)]]
    lpool = [("VBool", True), ("VBool", False), ("VInt", 0), ("VInt", 1), ("VFloat", 1), ("VStr", "a"), ("VNone",)]
    for ls in lits + lits[::-1]:
        for t, wrap in ((("TLit", ls), lambda v: v), (("TIter", "KList", ("TLit", ls), "List"), lambda v: ("VList", [v])),
                        (("TOpt", ("TLit", ls)), lambda v: v)):
            for v in lpool:
                for sc in (True, False):
                    for mi in range(3):
                        cases.append((mi, sc, t, wrap(v)))
    expected, bad = lg.correspond(rep, PID, cases)
    nd, badd, dcases, dexp = part_dump(rep, tier, seed)
    nb, badb = part_b64(rep, tier, seed)
    rep.cov.update({
        "evaluations": len(cases) + nd + nb,
        "distinct_nontrivial": len({repr((c[2], c[3])) for c in cases if c[2][0] not in ("TInt", "TStr", "TBool", "TNone", "TAny")}),
        "rule": "loaders: types of depth <= 3 in every spelling x data with 35% look-alikes/junk, plus an exhaustive block of "
                f"{len(depth1)} depth-1 types x {len(pool)} look-alike data x strict/lax; dumpers: well-typed values incl. unions "
                "over a 5-class user hierarchy with a diamond (all ordered pairs x all instances); base64: canonical strings and "
                "12 perturbations each (newline, blanks, padding, url alphabet, case) for bytes / bytearray / BytesIO x 6 "
                "configurations; non-trivial = compound type",
        "samples": [{"type": cases[0][2], "datum": cases[0][3], "library": expected[0]},
                    {"dump_type": dcases[0][0], "value": dcases[0][1], "library": dexp[0]}],
        "distribution": {"load_cases": len(cases), "dump_cases": nd, "base64_cases": nb,
                         "load_model_mismatches": len(bad), "dump_model_mismatches": badd, "base64_reference_mismatches": badb,
                         "load_ok": sum(e.startswith("OK") for e in expected)},
    })
    lg.proof_problems(rep, PID, proof)


def replay(rep, body):
    if "value" in body and "type" in body:
        classes = make_classes()
        t, v = lg.detuple(body["type"]), lg.fix_val(lg.detuple(body["value"]))
        out = {}
        for m in lg.MODES:
            try:
                out[m] = "OK " + lg.show_py(dump_retort(classes, m).dump(py_val_d(classes, v), py_ty_d(classes, t)))
            except BaseException as e:  # noqa: BLE001
                out[m] = "FAIL"
        print(out, "model:", body.get("model"))
        if len(set(out.values())) != 1 or out["ALL"] != body.get("model", out["ALL"]):
            rep.violation(body["signature"], body["kind"], body)
        return
    if "reference" in body:
        print("base64 case:", body["datum"], "loader:", body["loader"], "reference:", body["reference"])
        n, bad = part_b64(rep, "quick", body.get("seed", 0))
        return
    res = lg.replay_case(rep, body)
    if res and "model" in body and res[2][(body["strict_coercion"], body["mode"])] != body["model"]:
        rep.violation(body["signature"], body["kind"], body)
