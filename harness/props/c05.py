"""C05 - load errors are localised: trails are exact and, in ALL mode, complete.
Model: coq/Model/Load.v (error trees with relative trails), theorems: coq/Props/C05.v.

Planted faults: a valid (type, datum) pair is corrupted at a chosen non-empty set of positions (scalar leaf replaced by
a datum its type rejects, fixed-tuple item removed / added, dict key replaced by one the key type rejects, key AND
value of one entry corrupted together), so the set of offending positions is known by construction.
Direct oracle on the library: following each reported trail from the root reaches the reported input value; under ALL
exactly the planted positions are reported; under FIRST exactly one of them; under DISABLE no trail.
The same inputs go through the Coq model (complete error trees compared).
"""
import random

import lib
import loadgen as lg

PID = "C05"


def reject_for(t, r, under_opt=False):
    """a datum the strict loader of scalar type t rejects (and, under an Optional, that is not None)"""
    for _ in range(20):
        j = _reject_for(t, r)
        if not (under_opt and j == ("VNone",)):
            return j
    return ("VObj", 1)


def _reject_for(t, r):
    k = t[0]
    if k == "TInt":
        return r.choice([("VStr", "x"), ("VNone",), ("VBool", True), ("VFloat", 1)])
    if k == "TFloat":
        return r.choice([("VStr", "x"), ("VNone",), ("VBool", True)])
    if k == "TStr":
        return r.choice([("VInt", 3), ("VNone",), ("VList", [])])
    if k == "TBool":
        return r.choice([("VInt", 1), ("VStr", "y"), ("VNone",)])
    if k == "TNone":
        return r.choice([("VInt", 0), ("VStr", "")])
    if k == "TLit":
        return ("VStr", "not-a-member")
    return None


class Planter:
    def __init__(self, rnd):
        self.r = rnd

    def ty(self, d):
        """types whose failures are attributable to single positions: no multi-case unions on the way to a leaf"""
        r = self.r
        k = r.random()
        if d <= 0 or k < 0.22:
            return r.choice([("TInt",), ("TStr",), ("TBool",), ("TFloat",), ("TNone",),
                             ("TLit", r.sample(lg.LITS, r.randint(1, 3)))])
        if k < 0.45:
            kind = r.choice(["KList", "KList", "KTuple"])
            return ("TIter", kind, self.ty(d - 1), r.choice(lg.ITER_SPELL[kind])[0])
        if k < 0.62:
            return ("TTuple", [self.ty(d - 1) for _ in range(r.randint(1, 3))])
        if k < 0.85:
            return ("TDict", r.choice([("TInt",), ("TStr",)]), self.ty(d - 1), r.choice(["Dict", "dict", "Mapping"]))
        inner = self.ty(d - 1)
        return ("TOpt", inner) if inner[0] not in ("TOpt", "TNone") else inner

    def valid(self, t):
        r = self.r
        k = t[0]
        if k == "TInt":
            return ("VInt", r.choice([0, 4, 9]))
        if k == "TFloat":
            return ("VFloat", r.choice([0, 2]))
        if k == "TStr":
            return ("VStr", r.choice(["a", "bc"]))
        if k == "TBool":
            return ("VBool", r.random() < 0.5)
        if k == "TNone":
            return ("VNone",)
        if k == "TLit":
            l = r.choice(t[1])
            return {"LInt": ("VInt", l[1]), "LBool": ("VBool", l[1]), "LStr": ("VStr", l[1])}[l[0]]
        if k == "TIter":
            return (r.choice(["VList", "VTuple"]), [self.valid(t[2]) for _ in range(r.randint(1, 3))])
        if k == "TTuple":
            return (r.choice(["VList", "VTuple"]), [self.valid(x) for x in t[1]])
        if k == "TDict":
            keys = r.sample([0, 1, 2, 3] if t[1][0] == "TInt" else ["a", "b", "c", "d"], r.randint(1, 3))
            return ("VDict", [((("VInt", kk) if t[1][0] == "TInt" else ("VStr", kk)), self.valid(t[2])) for kk in keys])
        if k == "TOpt":
            return ("VNone",) if r.random() < 0.15 else self.valid(t[1])
        raise ValueError(t)

    def positions(self, t, v, path=(), under_opt=False):
        """plantable positions: (kind, path, type)"""
        k = t[0]
        out = []
        if k in ("TInt", "TFloat", "TStr", "TBool", "TNone", "TLit"):
            out.append(("leaf", path, (t, under_opt)))
        elif k == "TIter" and v[0] in ("VList", "VTuple"):
            for i, x in enumerate(v[1]):
                out += self.positions(t[2], x, path + (("i", i),))
        elif k == "TTuple" and v[0] in ("VList", "VTuple"):
            out.append(("len", path, t))
            for i, (tt, x) in enumerate(zip(t[1], v[1])):
                out += self.positions(tt, x, path + (("i", i),))
        elif k == "TDict" and v[0] == "VDict":
            for kk, x in v[1]:
                out.append(("key", path + (("ik", kk),), t[1]))
                out += self.positions(t[2], x, path + (("k", kk),))
        elif k == "TOpt" and v[0] != "VNone":
            out += self.positions(t[1], v, path, True)
        return out

    def plant(self, v, chosen):
        """apply the chosen faults; returns (corrupted value, expected {(trail, input)})"""
        r = self.r
        expected = set()

        def show_path(path):
            return tuple(("K", lg.show_py(lg.py_val(s[1]))) if s[0] == "ik" else
                         ("i", s[1]) if s[0] == "i" else
                         ("i", s[1][1]) if s[1][0] == "VInt" else          # an int key and an index look alike in a trail
                         ("k", lg.show_py(lg.py_val(s[1]))) for s in path)

        def go(val, path):
            here = [c for c in chosen if c[1] == path]
            for kind, _, t in here:
                if kind == "leaf":
                    junk = reject_for(t[0], r, t[1])
                    expected.add((show_path(path), lg.show_py(lg.py_val(junk))))
                    return junk
            if val[0] in ("VList", "VTuple"):
                items = [go(x, path + (("i", i),)) for i, x in enumerate(val[1])]
                for kind, _, t in here:
                    if kind == "len":
                        if r.random() < 0.5 and items:
                            items = items[:-1]
                        else:
                            items = items + [("VInt", 77)]
                        expected.add((show_path(path), "<len>"))
                return (val[0], items)
            if val[0] == "VDict":
                new = []
                for kk, x in val[1]:
                    key_fault = [c for c in chosen if c[0] == "key" and c[1] == path + (("ik", kk),)]
                    nx = go(x, path + (("k", kk),))
                    if key_fault:
                        bad_key = ("VStr", "badkey%d" % len(new)) if key_fault[0][2][0] == "TInt" else ("VInt", 900 + len(new))
                        # value errors of that entry are reported under the NEW key
                        moved = set()
                        for tr, inp in list(expected):
                            pref = show_path(path + (("k", kk),))
                            if tr[:len(pref)] == pref:
                                expected.discard((tr, inp))
                                moved.add((show_path(path + (("k", bad_key),)) + tr[len(pref):], inp))
                        expected.update(moved)
                        expected.add((show_path(path + (("ik", bad_key),)), lg.show_py(lg.py_val(bad_key))))
                        new.append((bad_key, nx))
                    else:
                        new.append((kk, nx))
                return ("VDict", new)
            return val
        # faults inside a removed / added tuple item vanish with it: keep 'len' faults disjoint from faults below
        return go(v, ()), expected


def reported(exc):
    """(absolute trail, input repr) of every leaf error of a raised LoadError"""
    from adaptix import load_error as le
    from adaptix.struct_trail import ItemKey, get_trail
    out = []

    def step(el):
        if isinstance(el, ItemKey):
            return ("K", lg.show_py(el.key))
        if isinstance(el, int) and not isinstance(el, bool):
            return ("i", el)
        return ("k", lg.show_py(el))

    def walk(e, prefix, child_of_optional=False):
        trail = prefix + tuple(step(x) for x in get_trail(e))
        subs = getattr(e, "exceptions", None)
        if subs is not None and isinstance(e, (le.AggregateLoadError, le.UnionLoadError)):
            for s in subs:
                walk(s, trail, isinstance(e, le.UnionLoadError) and len(subs) == 2)
        else:
            if type(e) is le.TypeLoadError and e.expected_type is None and child_of_optional and not get_trail(e):
                return          # the None case of an Optional: part of how an Optional reports, not a position of its own
            inp = "<len>" if isinstance(e, (le.NoRequiredItemsLoadError, le.ExtraItemsLoadError)) else \
                lg.show_py(getattr(e, "input_value", None))
            out.append((trail, inp, e))
    walk(exc, ())
    return out


def follow(data, trail):
    """walk a trail from the root of the input datum; returns the printed sub-value"""
    cur = data
    for kind, x in trail:
        if kind == "K":
            hit = [k for k in cur if lg.show_py(k) == x]
            if not hit:
                return None
            return lg.show_py(hit[0])
        if kind == "i":
            try:
                cur = list(cur)[x] if not isinstance(cur, dict) else cur[x]
            except Exception:  # noqa: BLE001
                return None
            continue
        else:
            hit = [k for k in cur if lg.show_py(k) == x] if isinstance(cur, dict) else []
            if not hit:
                try:
                    cur = list(cur)[int(x[1:])] if x.startswith("i") else None
                except Exception:  # noqa: BLE001
                    return None
                if cur is None:
                    return None
            else:
                cur = cur[hit[0]]
    return lg.show_py(cur)


def model_faults(rep):
    """planted faults in a model whose layout has three mapping nodes: under ALL every planted fault is reported, each at
    its node; under FIRST exactly one of them; under DISABLE without trail"""
    import itertools
    from dataclasses import dataclass

    from adaptix import DebugTrail, Retort, name_mapping
    from adaptix.load_error import AggregateLoadError, LoadError, NoRequiredFieldsLoadError, TypeLoadError
    from adaptix.struct_trail import get_trail

    @dataclass
    class M:
        a: int
        b: int
        c: int
        d: int

    recipe = [name_mapping(M, map={"a": ("outer", "a"), "b": ("outer", "inner", "b"), "c": ("other", "c")})]
    good = {"outer": {"a": 1, "inner": {"b": 2}}, "other": {"c": 3}, "d": 4}
    faults = {
        "a-missing": (lambda x: x["outer"].pop("a"), ("missing", ("outer",), "a")),
        "b-missing": (lambda x: x["outer"]["inner"].pop("b"), ("missing", ("outer", "inner"), "b")),
        "c-missing": (lambda x: x["other"].pop("c"), ("missing", ("other",), "c")),
        "d-missing": (lambda x: x.pop("d"), ("missing", (), "d")),
        "a-ill": (lambda x: x["outer"].__setitem__("a", "x"), ("type", ("outer", "a"), None)),
        "c-ill": (lambda x: x["other"].__setitem__("c", None), ("type", ("other", "c"), None)),
    }
    import copy
    names = list(faults)
    for k in (2, 3):
        for combo in itertools.combinations(names, k):
            if {"a-missing", "a-ill"} <= set(combo) or {"c-missing", "c-ill"} <= set(combo):
                continue
            data = copy.deepcopy(good)
            want = set()
            for nm in combo:
                faults[nm][0](data)
                want.add(faults[nm][1])
            for mode in (DebugTrail.ALL, DebugTrail.FIRST, DebugTrail.DISABLE):
                try:
                    Retort(recipe=recipe, debug_trail=mode).load(data, M)
                    rep.violation(f"model-faults:accepted:{mode.name}", "property-violated",
                                  {"what": f"corrupted model input accepted under {mode.name}", "faults": combo, "input": repr(data)})
                    continue
                except AggregateLoadError as e:
                    errs = list(e.exceptions)
                except LoadError as e:
                    errs = [e]
                got = set()
                for x in errs:
                    tr = tuple(get_trail(x))
                    if isinstance(x, NoRequiredFieldsLoadError):
                        got |= {("missing", tr, f) for f in x.fields}
                    elif isinstance(x, TypeLoadError):
                        got.add(("type", tr, None))
                    else:
                        got.add((type(x).__name__, tr, None))
                if mode == DebugTrail.ALL and got != want:
                    rep.violation("model-faults:ALL-incomplete", "property-violated",
                                  {"what": f"under ALL the planted faults {sorted(map(str, want))} are reported as {sorted(map(str, got))}",
                                   "faults": combo, "input": repr(data)})
                if mode == DebugTrail.FIRST and not (got and got <= want and len({t for _, t, _ in got}) == 1):
                    rep.violation("model-faults:FIRST", "property-violated",
                                  {"what": f"under FIRST {sorted(map(str, got))} is reported; expected errors of one node among {sorted(map(str, want))}",
                                   "faults": combo, "input": repr(data)})
                if mode == DebugTrail.DISABLE and any(t for _, t, _ in got):
                    rep.violation("model-faults:DISABLE-trail", "property-violated",
                                  {"what": "a trail is attached under DISABLE", "faults": combo})


def repeated_trails(rep):
    """trails stay exact over REPEATED failing loads through the same loaders: a model with a flattened layout nested in
    a list, a dict and another model; one retort per mode; a sequence of inputs, each with one planted bad leaf at a
    different place; after every load the reported trail, followed from the root of that input, must reach the planted
    value (nothing of an earlier failure may stick to the loader)."""
    import copy
    from dataclasses import dataclass
    from typing import Dict, List

    from adaptix import DebugTrail, Retort, name_mapping
    from adaptix.load_error import LoadError
    from adaptix.struct_trail import get_trail

    @dataclass
    class Pt:
        x: int
        y: int
        label: str

    @dataclass
    class Holder:
        origin: Pt
        pts: List[Pt]
        by: Dict[str, Pt]

    recipe = [name_mapping(Pt, map={"x": ("geo", "pos", "x"), "y": ("geo", "y")}),
              name_mapping(Holder, map={"origin": ("a", "origin")})]

    def pt():
        return {"geo": {"pos": {"x": 1}, "y": 2}, "label": "l"}

    def holder():
        return {"a": {"origin": pt()}, "pts": [pt(), pt(), pt()], "by": {"k": pt(), "j": pt()}}

    BAD = "planted-bad-value"
    plans = [
        (List[Pt], lambda: [pt(), pt(), pt()], (1, "geo", "pos", "x")),
        (List[Pt], lambda: [pt(), pt(), pt()], (2, "geo", "y")),
        (Holder, holder, ("a", "origin", "geo", "y")),
        (Holder, holder, ("pts", 0, "geo", "pos", "x")),
        (Dict[str, Pt], lambda: {"k": pt(), "j": pt()}, ("j", "geo", "pos", "x")),
        (Holder, holder, ("by", "k", "geo", "y")),
        (List[Pt], lambda: [pt(), pt(), pt()], (0, "geo", "pos", "x")),
        (Holder, holder, ("a", "origin", "geo", "pos", "x")),
        (List[List[Pt]], lambda: [[pt()], [pt(), pt()]], (1, 1, "geo", "pos", "x")),
        (Holder, holder, ("pts", 2, "geo", "y")),
    ]

    def leaves(e, prefix=()):
        tr = prefix + tuple(get_trail(e))
        subs = getattr(e, "exceptions", None)
        if subs:
            out = []
            for s in subs:
                out += leaves(s, tr)
            return out
        return [(tr, e)]

    n = 0
    for mode in (DebugTrail.FIRST, DebugTrail.ALL):
        rt = Retort(recipe=recipe, debug_trail=mode)
        for rnd in range(2):
            for step_no, (tp, mk, path) in enumerate(plans):
                data = mk()
                node = data
                for k in path[:-1]:
                    node = node[k]
                node[path[-1]] = BAD
                n += 1
                try:
                    rt.load(copy.deepcopy(data), tp)
                    rep.violation(f"repeated-trails:accepted:{mode.name}", "property-violated",
                                  {"what": "a planted ill-typed leaf is accepted", "input": repr(data), "mode": mode.name})
                    continue
                except LoadError as e:
                    got = leaves(e)
                trails = [tuple(t) for t, _ in got]
                if trails != [path]:
                    rep.violation(f"repeated-trails:{mode.name}", "property-violated",
                                  {"what": f"load number {rnd * len(plans) + step_no + 1} through one retort: the planted value sits at "
                                           f"{list(path)} but the reported trail(s) are {[list(t) for t in trails]}",
                                   "mode": mode.name, "type": repr(tp), "input": repr(data),
                                   "sequence": "the earlier loads of this sequence failed at other places of the same layout"})
                    break
    # dict keys that the key loader TRANSFORMS (date, enum, int under lax coercion): the trail element of a bad value is the
    # raw input key, so that following the trail through the input reaches the value
    import datetime as _dt
    import enum as _enum

    class Colour(_enum.Enum):
        RED = "r"
        GREEN = "g"
    keyed = [
        (Dict[_dt.date, List[int]], True, {"2024-02-03": [1, 2, "x"], "2024-02-04": [3]}, ("2024-02-03", 2)),
        (Dict[Colour, int], True, {"r": 1, "g": "many"}, ("g",)),
        (Dict[int, int], False, {"5": "x", "6": 2}, ("5",)),
        (Dict[int, List[int]], False, {"7": [1, "y"]}, ("7", 1)),
        (List[Dict[_dt.date, int]], True, [{"2024-02-03": 1}, {"2024-02-05": "z"}], (1, "2024-02-05")),
    ]
    for mode in (DebugTrail.FIRST, DebugTrail.ALL):
        for tp, strict, data, path in keyed:
            rt = Retort(debug_trail=mode, strict_coercion=strict)
            n += 1
            try:
                rt.load(copy.deepcopy(data), tp)
                rep.violation(f"transformed-keys:accepted:{mode.name}", "property-violated",
                              {"what": "a planted ill-typed value under a transformed key is accepted", "input": repr(data), "mode": mode.name})
                continue
            except LoadError as e:
                got = [tuple(t) for t, _ in leaves(e)]
            if got != [path]:
                rep.violation(f"transformed-keys:{mode.name}", "property-violated",
                              {"what": f"the planted value sits at {list(path)} of the input (dict keys as given in the input), the reported "
                                       f"trail(s) are {[list(t) for t in got]}", "mode": mode.name, "type": repr(tp), "input": repr(data)})
    return n


def run(rep, tier, seed):
    from adaptix import load_error as le
    proof = lib.proof_stage(rep, PID)
    r = random.Random(seed)
    pl = Planter(r)
    n_types = 260 if tier == "quick" else 4000
    cases = []       # (mode index, sc, t, corrupted)
    meta = []
    for _ in range(n_types):
        t = pl.ty(r.choice([1, 2, 2, 3]))
        v = pl.valid(t)
        pos = pl.positions(t, v)
        if not pos:
            continue
        for _ in range(3):
            k = r.randint(1, min(4, len(pos)))
            chosen = r.sample(pos, k)
            # a length fault makes faults inside that tuple undefined: drop those
            lens = [c[1] for c in chosen if c[0] == "len"]
            chosen = [c for c in chosen if not any(c[1][:len(p)] == p and c[1] != p for p in lens)]
            chosen = [c for c in chosen if not (c[0] != "len" and c[1] in lens)]
            # a key fault together with a fault in the value of the same entry is wanted (both must be reported)
            bad, expected = pl.plant(v, chosen)
            for mi in range(3):
                cases.append((mi, True, t, bad))
            meta.append((t, v, chosen, bad, expected))
    expected_out, badm = lg.correspond(rep, PID, cases)
    model_faults(rep)
    repeated_trails(rep)
    # ---- direct oracle on the library
    viol = 0
    for i, (t, v, chosen, bad, expected) in enumerate(meta):
        data = lg.py_val(bad)
        for mi, mode in enumerate(lg.MODES):
            try:
                lg.retort(True, mode).load(lg.py_val(bad), lg.py_ty(t))
                problem = "corrupted datum was accepted"
                got = None
            except le.LoadError as e:
                got = reported(e)
                problem = None
                trails = {(tr, inp) for tr, inp, _ in got}
                if mode == "DISABLE":
                    if any(tr for tr, _, _ in got):
                        problem = "a trail is attached under DebugTrail.DISABLE"
                else:
                    for tr, inp, exc in got:
                        if inp == "<len>":
                            continue
                        f = follow(data, tr)
                        if f != inp:
                            problem = f"following the trail {tr} reaches {f}, the error reports input {inp}"
                    positions = {tr for tr, _ in trails}
                    exp_positions = {tr for tr, _ in expected}
                    if mode == "ALL" and positions != exp_positions:
                        problem = f"ALL reports positions {sorted(positions)} but the corrupted positions are {sorted(exp_positions)}"
                    if mode == "ALL":
                        # every independently invalid leaf exactly once (an Optional contributes its None case as well)
                        dup = [x for x in got if sum(1 for y in got if y[0] == x[0] and type(y[2]) is type(x[2])) > 1]
                        if dup:
                            problem = f"an offending position is reported twice: {dup[0][0]}"
                    if mode == "FIRST" and (len(positions) != 1 or not positions <= exp_positions):
                        problem = f"FIRST reports positions {sorted(positions)}, expected exactly one of {sorted(exp_positions)}"
            except BaseException as e:  # noqa: BLE001
                problem = f"{type(e).__name__} instead of a LoadError"
            if problem:
                viol += 1
                kinds = "+".join(sorted({c[0] for c in chosen}))
                rep.violation(f"trail:{mode}:{kinds}:{problem.split(' ')[0]}", "property-violated",
                              {"what": problem, "type": t, "valid_datum": v, "datum": bad, "strict_coercion": True, "mode": mode,
                               "planted": sorted(map(str, expected))})
    rep.cov.update({
        "evaluations": len(cases),
        "distinct_nontrivial": len({repr(m[3]) for m in meta if len(m[2]) >= 2}),
        "rule": "valid (type, datum) pairs over nested list / tuple / dict / Optional types, corrupted at 1-4 chosen positions "
                "(wrong-type leaf, fixed tuple too short / too long, bad dict key, bad key together with bad value of the same "
                "entry); each under DISABLE / FIRST / ALL on library and model; direct oracle: trail reaches the reported input, "
                "ALL = exactly the planted positions once each, FIRST = exactly one, DISABLE = no trail; non-trivial = at least "
                "two planted faults",
        "samples": [{"type": meta[i][0], "corrupted": meta[i][3], "planted": sorted(map(str, meta[i][4])),
                     "ALL": expected_out[3 * i + 2]} for i in (0, 1)],
        "distribution": {"inputs": len(meta), "faults_per_input": {k: sum(1 for m in meta if len(m[2]) == k) for k in (1, 2, 3, 4)},
                         "fault_kinds": {k: sum(1 for m in meta for c in m[2] if c[0] == k) for k in ("leaf", "len", "key")},
                         "oracle_violations": viol, "model_vs_library_mismatches": len(badm)},
    })
    lg.proof_problems(rep, PID, proof)


def replay(rep, body):
    from adaptix import load_error as le
    res = lg.replay_case(rep, body)
    if res is None:
        return
    t, v, outs = res
    if "model" in body and outs[(True, body["mode"])] != body["model"]:
        rep.violation(body["signature"], body["kind"], body)
    if "planted" in body:
        try:
            lg.retort(True, body["mode"]).load(lg.py_val(v), lg.py_ty(t))
        except le.LoadError as e:
            print("reported:", [(tr, inp) for tr, inp, _ in reported(e)], "planted:", body["planted"])
