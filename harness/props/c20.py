"""C20 - load, dump and convert are pure with respect to their arguments.
Model: coq/Model/Heap.v (+ HeapShow.v printer), theorems: coq/Props/C20.v.

Correspondence by alias graphs: for generated types (atoms, Any, list / Sequence / set / frozenset / dict / Optional,
dataclass models with factory defaults, captured constant defaults and collected / unpacked extras) and generated
arguments, the harness numbers every mutable container of the argument (and of the constants the classes hold), runs
the library, and prints the result with each container labelled "argument node i" or "new"; the model executes the
plan of the same operation on the same numbered argument and must print the same graph and build the same number of
containers.  Direct oracle, independent of the model: the argument is unchanged (deep snapshot), a second call gives
an equal result, no new container occurs twice in a result, and two results share only argument or constant nodes.
"""
import copy
import random
from dataclasses import dataclass, field, fields, is_dataclass, make_dataclass
from typing import Any, Dict, FrozenSet, List, Optional, Sequence, Set

import lib
from lib import CoqEval, coq_list

PID = "C20"


class Box:
    """an object the generators can not render as a literal: a default of this class is captured as a constant"""

    def __init__(self, items):
        self.items = items

    def __eq__(self, other):
        return isinstance(other, Box) and other.items == self.items

    def __hash__(self):
        return 7

    def __repr__(self):
        return f"Box({self.items!r})"


# ----------------------------------------------------------------------------------------------------------------------
# abstract types

class Gen:
    def __init__(self, r):
        self.r = r
        self.ncls = 0
        self.classes = {}       # cls index -> (python class, abstract model)

    def ty(self, depth, allow_model=True):
        r = self.r
        kinds = ["atom", "atom", "any", "any"]
        if depth > 0:
            kinds += ["list", "list", "seq", "set", "frozen", "dict", "dict", "opt"]
            if allow_model:
                kinds += ["model", "model"]
        k = r.choice(kinds)
        if k in ("atom", "any"):
            return (k,)
        if k in ("set", "frozen"):
            return (k, ("atom",))
        if k == "dict":
            return ("dict", self.ty(depth - 1, allow_model))
        if k in ("list", "seq", "opt"):
            inner = self.ty(depth - 1, allow_model)
            if k == "opt" and inner[0] in ("opt", "any"):
                inner = ("list", ("atom",))
            return (k, inner)
        return self.model(depth - 1)

    def model(self, depth, with_extra=None, with_defaults=True):
        r = self.r
        cls = self.ncls
        self.ncls += 1
        n = r.choice([1, 2, 2, 3])
        flds = []
        for i in range(n):
            t = self.ty(depth, allow_model=depth > 0)
            d = ("none",)
            if with_defaults and flds and r.random() < 0.5 or (with_defaults and flds and flds[-1][1][0] != "none"):
                c = r.random()
                if c < 0.5:
                    kind = r.choice([0, 1, 2])
                    d = ("fresh", kind)
                    t = r.choice([("any",), [("list", ("atom",)), ("dict", ("atom",)), ("set", ("atom",))][kind]])
                else:
                    d = ("const", Box([r.randint(1, 9)]))
                    t = ("any",)
            flds.append((t, d))
        extra = (r.random() < 0.45 if with_extra is None else with_extra) and 1
        if extra and r.random() < 0.45:
            extra = 2                       # two extra_out targets; the last one is also the extra_in target
            flds.append((("any",), ("none",)))
        if extra:
            flds.append((("any",), ("none",)))
        m = ("model", cls, flds, extra)
        specs = []
        for i, (t, d) in enumerate(flds):
            kw = {}
            if d[0] == "fresh":
                kw["default_factory"] = [list, dict, set][d[1]]
            elif d[0] == "const":
                kw["default"] = d[1]
            if extra and i >= len(flds) - extra:
                kw["kw_only"] = True
            specs.append((f"f{i}", self.py_ty(t), field(**kw)))
        pycls = make_dataclass(f"M{cls}", specs)
        self.classes[cls] = (pycls, m)
        return m

    def py_ty(self, t):
        k = t[0]
        if k == "atom":
            return int
        if k == "any":
            return Any
        if k == "list":
            return List[self.py_ty(t[1])]
        if k == "seq":
            return Sequence[self.py_ty(t[1])]
        if k == "set":
            return Set[self.py_ty(t[1])]
        if k == "frozen":
            return FrozenSet[self.py_ty(t[1])]
        if k == "dict":
            return Dict[str, self.py_ty(t[1])]
        if k == "opt":
            return Optional[self.py_ty(t[1])]
        return self.classes[t[1]][0]

    # ---- values
    def plain(self, depth):
        """arbitrary plain data for positions typed Any"""
        r = self.r
        c = r.random()
        if depth <= 0 or c < 0.3:
            return r.randint(1, 9)
        if c < 0.6:
            return [self.plain(depth - 1) for _ in range(r.choice([0, 1, 2]))]
        if c < 0.9:
            return {f"k{r.randint(1, 9)}": self.plain(depth - 1) for _ in range(r.choice([0, 1, 2]))}
        return None

    def data(self, t, depth=2):
        """outer representation accepted by the loader of t"""
        r = self.r
        k = t[0]
        if k == "atom":
            return r.randint(1, 9)
        if k == "any":
            return self.plain(depth)
        if k in ("list", "seq"):
            return [self.data(t[1], depth - 1) for _ in range(r.choice([0, 1, 2]))]
        if k in ("set", "frozen"):
            return [r.randint(1, 9) for _ in range(r.choice([0, 1]))]
        if k == "dict":
            return {f"k{a}": self.data(t[1], depth - 1) for a in r.sample(range(1, 9), r.choice([0, 1, 2]))}
        if k == "opt":
            return None if r.random() < 0.3 else self.data(t[1], depth)
        _, cls, flds, extra = t
        out = {}
        real = flds[:-1] if extra else flds
        for i, (ft, d) in enumerate(real):
            if d[0] != "none" and r.random() < 0.6:
                continue
            if extra == 2 and i == len(flds) - 2:
                out[f"f{i}"] = {f"k{j}": self.plain(1) for j in r.sample(range(1, 6), r.choice([0, 1, 2]))}
                continue
            out[f"f{i}"] = self.data(ft, depth - 1)
        if extra:
            for j in r.sample(range(1, 6), r.choice([0, 1, 2])):
                out[f"x{j}"] = self.plain(1)
        return out

    def obj(self, t, depth=2):
        """a value of type t (for dump and convert)"""
        r = self.r
        k = t[0]
        if k == "atom":
            return r.randint(1, 9)
        if k == "any":
            return self.plain(depth)
        if k == "list":
            return [self.obj(t[1], depth - 1) for _ in range(r.choice([0, 1, 2]))]
        if k == "seq":
            xs = [self.obj(t[1], depth - 1) for _ in range(r.choice([0, 1, 2]))]
            return xs if r.random() < 0.5 else tuple(xs)
        if k == "set":
            return {r.randint(1, 9) for _ in range(r.choice([0, 1]))}
        if k == "frozen":
            return frozenset(r.randint(1, 9) for _ in range(r.choice([0, 1])))
        if k == "dict":
            return {f"k{a}": self.obj(t[1], depth - 1) for a in r.sample(range(1, 9), r.choice([0, 1, 2]))}
        if k == "opt":
            return None if r.random() < 0.3 else self.obj(t[1], depth)
        _, cls, flds, extra = t
        vals = []
        for i, (ft, d) in enumerate(flds):
            if extra and i == len(flds) - 1:
                vals.append({f"x{j}": self.plain(1) for j in r.sample(range(1, 6), r.choice([0, 1, 2]))})
            elif extra == 2 and i == len(flds) - 2:
                vals.append({f"k{j}": self.plain(1) for j in r.sample(range(1, 6), r.choice([0, 1, 2]))})
            else:
                vals.append(self.obj(ft, depth - 1))
        return self.classes[cls][0](**{f"f{i}": v for i, v in enumerate(vals)})

    def twin(self, t):
        """a destination type of the same outline for convert (no extras, no defaults needed)"""
        r = self.r
        k = t[0]
        if k == "atom":
            return ("any",) if r.random() < 0.2 else t
        if k == "any":
            return t
        if k in ("list", "seq"):
            return (r.choice(["list", "seq", k]), self.twin(t[1]))
        if k in ("set", "frozen"):
            return (r.choice(["set", "frozen", "list", "seq"]), ("atom",))
        if k == "dict":
            return ("dict", self.twin(t[1]))
        if k == "opt":
            return ("opt", self.twin(t[1]))
        _, cls, flds, extra = t
        ncls = self.ncls
        self.ncls += 1
        nf = [(self.twin(ft), ("none",)) for ft, d in flds]
        m = ("model", ncls, nf, 0)
        pycls = make_dataclass(f"M{ncls}", [(f"f{i}", self.py_ty(ft)) for i, (ft, d) in enumerate(nf)])
        self.classes[ncls] = (pycls, m)
        return m


# ----------------------------------------------------------------------------------------------------------------------
# numbering, rendering to Gallina, printing alias graphs

MUTABLE = (list, set, dict)


def is_node(o):
    return isinstance(o, MUTABLE) or isinstance(o, Box) or (is_dataclass(o) and not isinstance(o, type))


def key_atom(k):
    if isinstance(k, str) and k[:1] in "fkx" and k[1:].isdigit():
        return int(k[1:]) + (1000 if k[0] == "x" else 0)
    if isinstance(k, int):
        return k
    raise ValueError(k)


def number(o, amap):
    """assign identities to the mutable containers reachable from o, in traversal order"""
    if is_node(o):
        if id(o) in amap:
            return
        amap[id(o)] = len(amap)
    if isinstance(o, (list, tuple)):
        for x in o:
            number(x, amap)
    elif isinstance(o, (set, frozenset)):
        for x in sorted(o):
            number(x, amap)
    elif isinstance(o, dict):
        for v in o.values():
            number(v, amap)
    elif isinstance(o, Box):
        number(o.items, amap)
    elif is_dataclass(o) and not isinstance(o, type):
        for f in fields(o):
            number(getattr(o, f.name), amap)


def cls_index(o):
    return int(type(o).__name__[1:])


def coq_hv(o, amap):
    if o is None:
        return "HAtom 0"
    if isinstance(o, int):
        return f"HAtom {o}"
    if isinstance(o, list):
        return f"HList {amap[id(o)]} " + coq_list([p(coq_hv(x, amap)) for x in o])
    if isinstance(o, tuple):
        return "HTuple " + coq_list([p(coq_hv(x, amap)) for x in o])
    if isinstance(o, set):
        return f"HSet {amap[id(o)]} " + coq_list([p(coq_hv(x, amap)) for x in sorted(o)])
    if isinstance(o, frozenset):
        return "HTuple " + coq_list([p(coq_hv(x, amap)) for x in sorted(o)])
    if isinstance(o, dict):
        return f"HDict {amap[id(o)]} " + coq_list([f"(HAtom {key_atom(k)}, {coq_hv(v, amap)})" for k, v in o.items()])
    if isinstance(o, Box):
        return f"HObj {amap[id(o)]} 99 [(0, {coq_hv(o.items, amap)})]"
    if is_dataclass(o):
        return f"HObj {amap[id(o)]} {cls_index(o)} " + coq_list(
            [f"({i}, {coq_hv(getattr(o, f.name), amap)})" for i, f in enumerate(fields(o))])
    raise ValueError(repr(o))


def p(s):
    return f"({s})" if " " in s else s


def coq_ty(t, amap):
    k = t[0]
    if k == "atom":
        return "TAtom"
    if k == "any":
        return "TAny"
    if k in ("list", "seq", "set", "frozen", "opt"):
        return {"list": "TList", "seq": "TSeq", "set": "TSet", "frozen": "TFrozen", "opt": "TOpt"}[k] + " " + p(coq_ty(t[1], amap))
    if k == "dict":
        return "TDict TAtom " + p(coq_ty(t[1], amap))
    _, cls, flds, extra = t
    fs = []
    for i, (ft, d) in enumerate(flds):
        dd = "DNone" if d[0] == "none" else (f"DFresh {d[1]}" if d[0] == "fresh" else f"DConst ({coq_hv(d[1], amap)})")
        fs.append(f"({i}, {coq_ty(ft, amap)}, {dd})")
    outs = [str(i) for i in range(len(flds) - extra, len(flds))] if extra else []
    return f"TModel {cls} {coq_list(fs)} " + (f"(Some {len(flds) - 1}) " if extra else "None ") + coq_list(outs)


def constants(t, out):
    k = t[0]
    if k in ("list", "seq", "set", "frozen", "opt", "dict"):
        constants(t[1], out)
    elif k == "model":
        for ft, d in t[2]:
            constants(ft, out)
            if d[0] == "const":
                out.append(d[1])


def show(o, amap, news):
    """alias graph in the format of HeapShow.show_hv; news collects the new containers met (with repetitions)"""
    def lab(x):
        if id(x) in amap:
            return f"a{amap[id(x)]}"
        news.append(x)
        return "n"
    if o is None:
        return "#0"
    if isinstance(o, int):
        return f"#{o}"
    if isinstance(o, list):
        return "L" + lab(o) + "[" + ",".join(show(x, amap, news) for x in o) + "]"
    if isinstance(o, tuple):
        return "T(" + ",".join(show(x, amap, news) for x in o) + ")"
    if isinstance(o, set):
        return "S" + lab(o) + "{" + ",".join(show(x, amap, news) for x in sorted(o)) + "}"
    if isinstance(o, frozenset):
        return "T(" + ",".join(show(x, amap, news) for x in sorted(o)) + ")"
    if isinstance(o, dict):
        return "D" + lab(o) + "{" + ",".join(sorted(f"#{key_atom(k)}:{show(v, amap, news)}" for k, v in o.items())) + "}"
    if isinstance(o, Box):
        return "O" + lab(o) + ":99(0=" + show(o.items, amap, news) + ")"
    if is_dataclass(o):
        return "O" + lab(o) + f":{cls_index(o)}(" + ",".join(
            f"{i}={show(getattr(o, f.name), amap, news)}" for i, f in enumerate(fields(o))) + ")"
    return f"?{o!r}"


# ----------------------------------------------------------------------------------------------------------------------

class InsertingDict(dict):
    """a mapping that materialises missing keys on item access (like collections.defaultdict)"""

    def __missing__(self, key):
        self[key] = 0
        return 0


def inserting(o):
    if isinstance(o, dict):
        return InsertingDict((k, inserting(v)) for k, v in o.items())
    if isinstance(o, list):
        return [inserting(x) for x in o]
    return o


def retort_for(g, t, mode=None):
    from adaptix import DebugTrail, Retort, name_mapping
    recipe = []
    for cls, (pycls, m) in g.classes.items():
        if m[3]:
            n = len(m[2])
            recipe.append(name_mapping(pycls, extra_in=f"f{n - 1}", extra_out=[f"f{i}" for i in range(n - m[3], n)]))
    return Retort(recipe=recipe, debug_trail=mode or DebugTrail.ALL)


def mutable_default_values(rep):
    """models whose omitted fields have a mutable container as default VALUE (NamedTuple / attrs / plain __init__; a
    dataclass refuses such defaults): the loader builds the default from its literal, so two results share no container
    with each other or with the retort, and repeating the call after one result has been changed gives the same value"""
    from typing import Any, Dict, List, NamedTuple, Set

    import attrs
    from adaptix import DebugTrail, Retort

    class NT(NamedTuple):
        a: int
        tags: List[str] = []             # noqa: RUF012
        opts: Dict[str, Any] = {"k": [1]}   # noqa: RUF012

    @attrs.define
    class AT:
        a: int
        seen: Set[int] = {1, 2}          # noqa: RUF012
        rows: List[Any] = [[0], {"x": 1}]   # noqa: RUF012

    class PL:
        def __init__(self, a: int, argv: List[str] = ["-v"], env: Dict[str, Any] = {}):   # noqa: B006
            self.a, self.argv, self.env = a, argv, env

        def __eq__(self, o):
            return isinstance(o, PL) and (self.a, self.argv, self.env) == (o.a, o.argv, o.env)

        def __repr__(self):
            return f"PL({self.a!r}, {self.argv!r}, {self.env!r})"

    def containers(o, acc):
        vals = list(o) if isinstance(o, (tuple, list, set)) else list(o.values()) if isinstance(o, dict) else \
            [getattr(o, f) for f in ("a", "tags", "opts", "seen", "rows", "argv", "env") if hasattr(o, f)]
        if isinstance(o, (list, dict, set)):
            acc.append(o)
        for v in vals:
            if isinstance(v, (list, dict, set, tuple)):
                containers(v, acc)
        return acc

    n = 0
    for mode in DebugTrail:
        for cls, fields in ((NT, ("tags", "opts")), (AT, ("seen", "rows")), (PL, ("argv", "env"))):
            rt = Retort(debug_trail=mode)
            n += 3
            first = rt.load({"a": 1}, cls)
            snapshot = repr(first)
            second = rt.load({"a": 1}, cls)
            shared = [c for c in containers(first, []) if any(c is d for d in containers(second, []))]
            if shared:
                rep.violation(f"default-value:shared:{cls.__name__}", "property-violated",
                              {"what": "two results of load share a mutable container built for an omitted field's default value",
                               "model": cls.__name__, "mode": mode.name, "shared": repr(shared)[:200]})
                continue
            for f in fields:                     # change the first result in place
                c = getattr(first, f)
                if isinstance(c, list):
                    c.append("changed")
                elif isinstance(c, dict):
                    c["changed"] = 1
                else:
                    c.add(99)
            third = rt.load({"a": 1}, cls)
            if repr(third) != snapshot or third != second:
                rep.violation(f"default-value:repeat:{cls.__name__}", "property-violated",
                              {"what": "repeating load with an equal argument gives a different result after an earlier result was changed",
                               "model": cls.__name__, "mode": mode.name, "first_call": snapshot, "later_call": repr(third)})
    # the same for containers given to link_constant: each conversion gets a container of its own
    from dataclasses import dataclass as _dc

    from adaptix import P
    from adaptix.conversion import get_converter, impl_converter, link_constant

    @_dc
    class Sc:
        a: int

    @_dc
    class Dcn:
        a: int
        tags: Any
        opts: Any
        seen: Any
    recipe = [link_constant(P[Dcn].tags, value=["x", [1]]), link_constant(P[Dcn].opts, value={"k": [1]}), link_constant(P[Dcn].seen, value={1, 2})]

    def stub(s: Sc) -> Dcn:
        ...
    for label, conv in (("get_converter", get_converter(Sc, Dcn, recipe=recipe)), ("impl_converter", impl_converter(recipe=recipe)(stub))):
        n += 3
        first, second = conv(Sc(1)), conv(Sc(1))
        snapshot = repr(first)
        shared = [c for c in containers(first, []) if any(c is d for d in containers(second, []))]
        if shared:
            rep.violation(f"constant-value:shared:{label}", "property-violated",
                          {"what": "two results of one converter share a mutable container built for a link_constant value",
                           "converter": label, "shared": repr(shared)[:200]})
            continue
        first.tags.append("changed")
        first.opts["changed"] = 1
        first.seen.add(99)
        third = conv(Sc(1))
        if repr(third) != snapshot or third != second:
            rep.violation(f"constant-value:repeat:{label}", "property-violated",
                          {"what": "repeating convert with an equal argument gives a different result after an earlier result was changed",
                           "converter": label, "first_call": snapshot, "later_call": repr(third)})
    return n


def run(rep, tier, seed):
    from adaptix import DebugTrail
    from adaptix.conversion import get_converter
    proof = lib.proof_stage(rep, PID, extra_trusted=[
        "'never mutates its argument' holds of a pure model by construction and is therefore NOT a theorem: it is established "
        "only by the deep-snapshot comparison of this harness",
        "object identity (is / id()) of CPython is what the alias graphs are printed from"])
    r = random.Random(seed)
    n_types = 140 if tier == "quick" else 1500
    stats = {"types": 0, "load": 0, "dump": 0, "convert": 0, "asis_aliases": 0, "new_containers": 0, "no_plan": 0, "rejected": 0}
    cases, meta, samples = [], [], []
    for ti in range(n_types):
        g = Gen(r)
        t = g.model(2) if ti % 2 == 0 else g.ty(3)
        stats["types"] += 1
        for op in ("load", "dump", "convert"):
            for rep_i in range(2 if tier == "quick" else 3):
                try:
                    one_case(rep, g, t, op, r, stats, cases, meta, get_converter)
                except SkipCase:
                    stats["no_plan"] += 1
        if len(samples) < 3 and ti % 37 == 5 and meta:
            samples.append({k: meta[-1][k] for k in ("op", "type", "argument", "graph")})
    stats["default_value_checks"] = mutable_default_values(rep)
    ev = CoqEval(PID, "From AV Require Import Model.Heap Model.HeapShow.",
                 "(fun c => show_exec (fst (fst c)) (snd (fst c)) (snd c))", shard=200)
    for idx, got in ev.compare(cases):
        rep.violation(f"alias-graph:{meta[idx]['op']}:{classify(meta[idx], got)}", "model-disagrees",
                      dict(meta[idx], what=f"{meta[idx]['op']}: the alias graph of the result differs from the model's "
                                           f"(a<i> = container i of the argument, n = new)", model=got))
    for k, err in ev.errors:
        rep.violation("coq-eval-error", "harness-error", {"what": err[-1500:]}, no_input=True)
    rep.cov.update({
        "evaluations": stats["load"] + stats["dump"] + stats["convert"],
        "distinct_nontrivial": stats["load"] + stats["dump"] + stats["convert"] - stats["rejected"],
        "rule": "types: random trees of depth <= 3 over int, Any, List, Sequence, Set, FrozenSet, Dict[str, .], Optional and "
                "dataclass models with 1-3 fields, default factories (list / dict / set), defaults captured as constants (an "
                "object the generators can not render), an extra field with extra_in / extra_out in 40% of the models; per "
                "type: 2 (quick) or 3 arguments per operation; load from plain data with optional fields absent at random and "
                "unknown keys, dump and convert from instances; convert to a twin type with List / Sequence / Set / FrozenSet "
                "swapped and int -> Any at random; Any positions hold nested lists / dicts so that aliasing is observable; "
                "every load / dump under a debug_trail drawn from the three modes; 30% of the load arguments built from mappings that "
                "insert missing keys on item access; non-trivial = an accepted call",
        "samples": samples or [{"note": "none"}],
        "distribution": stats,
    })
    import loadgen as lg
    lg.proof_problems(rep, PID, proof)


class SkipCase(Exception):
    pass


def classify(m, got):
    return "rejected" if got in ("rejected", "no-plan") else "graph"


def one_case(rep, g, t, op, r, stats, cases, meta, get_converter):
    from adaptix import DebugTrail
    mode = r.choice(list(DebugTrail))
    rt = retort_for(g, t, mode)
    if op == "load":
        arg = g.data(t)
        if r.random() < 0.3:
            arg = inserting(arg)          # mappings that would grow if the loader probed them by item access
        call = lambda: rt.load(arg, g.py_ty(t))     # noqa: E731
        plan = f"(Some (load_plan {p(coq_ty_late(t))}))"
        dst = None
    elif op == "dump":
        arg = g.obj(t)
        call = lambda: rt.dump(arg, g.py_ty(t))     # noqa: E731
        plan = f"(Some (dump_plan {p(coq_ty_late(t))}))"
        dst = None
    else:
        if t[0] != "model":
            raise SkipCase
        # convert needs models without extras / defaults on the source side: use a twin of the twin
        src = g.twin(t)
        dst = g.twin(src)
        arg = g.obj(src)
        from adaptix import ProviderNotFoundError
        try:
            conv = get_converter(g.py_ty(src), g.py_ty(dst))
        except ProviderNotFoundError:
            raise SkipCase from None
        call = lambda: conv(arg)     # noqa: E731
        t = src
        plan = None
    stats[op] += 1
    consts = []
    constants(t, consts)
    if dst is not None:
        constants(dst, consts)
    amap = {}
    number(arg, amap)
    for c in consts:
        number(c, amap)
    n0 = len(amap)
    snapshot = copy.deepcopy(arg)
    info = {"op": op, "type": repr(strip(t)), "argument": repr(arg)[:300], "debug_trail": mode.name if op != "convert" else "-"}
    try:
        res1 = call()
        res2 = call()
    except Exception as e:  # noqa: BLE001
        stats["rejected"] += 1
        rep.violation(f"{op}:raises:{type(e).__name__}", "harness-error",
                      dict(info, what=f"{op} of a generated valid argument raises {type(e).__name__}: {str(e)[:200]}"))
        return
    # ---- direct oracle
    if arg != snapshot:
        rep.violation(f"{op}:mutates-argument", "property-violated",
                      dict(info, what=f"{op} changed its argument", before=repr(snapshot)[:300], after=repr(arg)[:300]))
    if res1 != res2:
        rep.violation(f"{op}:not-repeatable", "property-violated",
                      dict(info, what=f"two {op} calls with the same argument give different results", first=repr(res1)[:300],
                           second=repr(res2)[:300]))
    news1, news2 = [], []
    graph = show(res1, amap, news1)
    show(res2, amap, news2)
    if len({id(x) for x in news1}) != len(news1):
        rep.violation(f"{op}:new-container-twice", "property-violated",
                      dict(info, what="a container built by the call occurs at two positions of the result", graph=graph))
    shared = {id(x) for x in news1} & {id(x) for x in news2}
    if shared:
        rep.violation(f"{op}:results-share", "property-violated",
                      dict(info, what="two results share a container that belongs neither to the argument nor to a class default",
                           graph=graph, shared=[repr(x)[:80] for x in news1 if id(x) in shared][:3]))
    stats["new_containers"] += len(news1)
    stats["asis_aliases"] += graph.count("a")
    # ---- the model on the same numbered argument
    tcoq = coq_ty(t, amap)
    if op == "convert":
        plan = f"(conv_plan {p(tcoq)} {p(coq_ty(dst, amap))})"
    else:
        plan = plan.replace("@@TY@@", p(tcoq))
    cases.append((f"({plan}, {coq_hv(arg, amap)}, {n0})", f"{graph} built={len(news1)}"))
    meta.append(dict(info, graph=graph, n0=n0))


def coq_ty_late(t):
    return "@@TY@@"


def strip(t):
    if t[0] == "model":
        return ("model", t[1], [(strip(ft), d if d[0] != "const" else ("const",)) for ft, d in t[2]], t[3])
    if len(t) > 1 and isinstance(t[1], tuple):
        return (t[0], strip(t[1]))
    return t


def replay(rep, body):
    import sys
    print("recorded:", body.get("what"))
    lib.replay_by_rerun(sys.modules[__name__], rep, body)
