"""C09 - recipe resolution is first-match in recipe order; chaining composes exactly once.
Model: coq/Model/Router.v, theorems: coq/Props/C09.v.

Recipes are drawn abstractly (each provider = (checker, behaviour, id); a checker is either an exact concrete class or
an "other" predicate whose truth set over the request classes is chosen by the generator and then *rendered* as an
abstract class, a P combinator expression, P.ANY, a negation or a field name), rendered to real providers through the
public API (loader / bound / Chain / retorts in recipes / class recipes / extend / replace), and run through
Retort.get_loader.  Every provider is wrapped so that each consultation of its handler is logged.
"""
import abc
import itertools
import random

import lib
from lib import CoqEval, coq_list

PID = "C09"
NT = 4  # request classes T0..T3; T2, T3 derive from the abstract class ABase


def make_types():
    class ABase(abc.ABC):
        @abc.abstractmethod
        def m(self):
            ...

    class T0:
        pass

    class T1:
        pass

    class T2(ABase):
        def m(self):
            return 2

    class T3(ABase):
        def m(self):
            return 3
    return [T0, T1, T2, T3], ABase


# ----------------------------------------------------------------------------------------------------------------------
# generation (model vocabulary)

def gen_checker(r):
    if r.random() < 0.55:
        return ("exact", r.randrange(NT))
    acc = tuple(sorted(r.sample(range(NT), r.choice([0, 1, 1, 2, 2, 3, 4]))))
    return ("other", acc, r.randrange(4))


def gen_beh(r, depth=1):
    k = r.random()
    if k < 0.30:
        return ("answer", r.randrange(40))
    if k < 0.48:
        return ("decline",)
    if k < 0.55:
        return ("terminal",)
    if k < 0.73:
        return ("first", r.randrange(40))
    if k < 0.90:
        return ("last", r.randrange(40))
    if depth > 0:
        base = 500 + r.randrange(400)
        ext = gen_recipe(r, r.randint(0, 2), depth - 1, base + 50) if r.random() < 0.4 else None
        return ("nested", gen_recipe(r, r.randint(0, 3), depth - 1, base), ext)
    return ("answer", r.randrange(40))


def gen_recipe(r, n, depth=1, base=0):
    return [(gen_checker(r), gen_beh(r, depth), base + i) for i in range(n)]


# ----------------------------------------------------------------------------------------------------------------------
# rendering to Gallina

def coq_checker(c):
    if c[0] == "exact":
        return f"(ExactO {c[1]})"
    return f"(Other (fun o => existsb (Nat.eqb o) {coq_list([str(x) for x in c[1]])}))"


def coq_recipe(rec):
    return coq_list([f"({coq_checker(c)}, {h})" for c, b, h in rec])


def nested_recipe(b):
    """recipe of a nested retort: a retort first used as a provider elsewhere and then extended serves ext ++ base"""
    return (b[2] or []) + b[1] if len(b) > 2 else b[1]


def coq_beh_table(rec, req, acc):
    """behaviour function as an association list; nested retorts are resolved by the model itself on their own recipe"""
    for c, b, h in rec:
        if b[0] == "answer":
            acc.append(f"({h}, Answer {b[1]})")
        elif b[0] == "decline":
            acc.append(f"({h}, Decline)")
        elif b[0] == "terminal":
            acc.append(f"({h}, Terminal)")
        elif b[0] == "first":
            acc.append(f"({h}, ChainFirst {50 + b[1]})")
        elif b[0] == "last":
            acc.append(f"({h}, ChainLast {50 + b[1]})")
        else:
            inner = nested_recipe(b)
            sub = []
            coq_beh_table(inner, req, sub)
            acc.append(f"({h}, nested_beh (fst (resolve true (beh_of {coq_list(sub)}) {coq_recipe(inner)} {req})))")
    return acc


HEADER = """From AV Require Import Model.Router Model.Harness.
From Coq Require Import Arith Bool.
Fixpoint beh_of (t : list (nat * beh)) (h : nat) : beh :=
  match t with [] => Decline | (k, b) :: r => if Nat.eqb k h then b else beh_of r h end.
Definition show_out (o : out * list nat) : string :=
  (match fst o with Found c => "F:" ++ join "," (map show_nat (rev c)) | NotFound => "NF" | Failed => "NF" end
   ++ "|" ++ join "," (map show_nat (snd o)))%string.
Definition run (c : list (nat * beh) * list (checker * nat) * nat) : string :=
  match c with (t, r, req) => show_out (resolve true (beh_of t) r req) end.
"""


# ----------------------------------------------------------------------------------------------------------------------
# rendering to adaptix

SIBLING = [(("other", (0, 1, 2, 3), 0), ("answer", 39), 450)]     # a catch-all provider that only a sibling retort gets


class World:
    def __init__(self):
        self.types, self.abase = make_types()
        self.log = []

    def pred(self, c):
        from adaptix import P
        T = self.types
        if c[0] == "exact":
            return T[c[1]] if c[1] % 2 == 0 else P[T[c[1]]]     # both spellings build an ExactOriginLSC
        acc, variant = c[1], c[2]
        comp = [i for i in range(NT) if i not in acc]
        if acc == (2, 3) and variant < 2:
            return self.abase                                      # abstract class: subclass match
        if not acc:
            return ["no_such_field", P.no_such_field, ~P.ANY, P[T[0]] & P[T[1]]][variant]
        if len(acc) == NT and variant < 3:
            return [P.ANY, ~P.no_such_field, P[T[0]] | ~P[T[0]]][variant]

        def disj(ids):
            e = P[T[ids[0]]] | P[T[ids[0]]]
            for i in ids[1:]:
                e = e | P[T[i]]
            return e
        if variant % 2 == 0 or not comp:
            return disj(list(acc))
        return ~disj(comp) & P.ANY

    def provider(self, item):
        from adaptix import Chain, Retort, bound, loader
        from adaptix._internal.morphing.request_cls import LoaderRequest
        from adaptix._internal.provider.essential import CannotProvide, Provider
        from adaptix._internal.provider.request_checkers import AlwaysTrueRequestChecker
        c, b, h = item
        log = self.log

        class Raising(Provider):
            def __init__(self, terminal):
                self.terminal = terminal

            def get_request_handlers(self):
                def handler(mediator, request):
                    raise CannotProvide("declined", is_terminal=self.terminal)
                return [(LoaderRequest, AlwaysTrueRequestChecker(), handler)]

        class Logged(Provider):
            def __init__(self, inner):
                self.inner = inner

            def get_request_handlers(self):
                def wrap(handler):
                    def logged(mediator, request):
                        log.append(h)
                        return handler(mediator, request)
                    return logged
                # a retort used as a provider serves every request class; only loader requests are the subject here
                return [(rc, ch, wrap(hd) if rc is LoaderRequest else hd)
                        for rc, ch, hd in self.inner.get_request_handlers()]

        pred = self.pred(c)
        if b[0] == "answer":
            p = loader(pred, lambda x, a=b[1]: x + [a])
        elif b[0] == "first":
            p = loader(pred, lambda x, f=b[1]: x + [50 + f], Chain.FIRST)
        elif b[0] == "last":
            p = loader(pred, lambda x, f=b[1]: x + [50 + f], Chain.LAST)
        elif b[0] in ("decline", "terminal"):
            p = bound(pred, Raising(b[0] == "terminal"))
        else:
            inner = Retort(recipe=[self.provider(i) for i in b[1]])
            if len(b) > 2 and b[2] is not None:
                try:
                    Retort(recipe=[inner]).get_loader(int)  # the base retort has already served as a provider
                except Exception:  # noqa: BLE001  (its recipe may well refuse int; only the use matters)
                    pass
                inner = inner.extend(recipe=[self.provider(i) for i in b[2]])
                if h % 2:
                    inner = inner.replace(strict_coercion=False)
            always = c[0] == "other" and len(c[1]) == NT
            p = inner if (always and c[2] == 3) else bound(pred, inner)
        return Logged(p)

    def run(self, segments, req, variant):
        """segments = (extend_new, inst, cls2, cls1); returns the canonical outcome string"""
        from adaptix import ProviderNotFoundError, Retort
        new, inst, cls2, cls1 = segments
        self.log.clear()
        mk = lambda rec: [self.provider(i) for i in rec]  # noqa: E731
        # variant: bit 0 = extend even with nothing to add, bit 1 = replace() twice, bits 2-3 = how the recipes are spelled
        # (any Iterable[Provider] is allowed: list, tuple, one-shot iterator, generator), bit 4 = siblings are derived
        # from the same base first (extend with a catch-all provider, replace) and thrown away
        form = (variant >> 2) & 3
        spell = [list, tuple, iter, lambda l: (x for x in l)][form]
        R1 = type("R1", (Retort,), {"recipe": spell(mk(cls1))})
        R2 = type("R2", (R1,), {"recipe": spell(mk(cls2))})
        retort = R2(recipe=spell(mk(inst)))
        if variant & 16:
            sib = retort.extend(recipe=spell(mk(SIBLING)))
            sib.replace(strict_coercion=False)
            if variant & 1:
                try:
                    sib.get_loader(self.types[req])
                except Exception:  # noqa: BLE001
                    pass
            self.log.clear()
        if new or variant & 1:
            retort = retort.extend(recipe=spell(mk(new)))
        if variant & 2:
            retort = retort.replace(strict_coercion=False).replace(strict_coercion=True)
        # nested retorts log into the same list; only the outer recipe's ids (< 500) belong to the outer trace
        try:
            ld = retort.get_loader(self.types[req])
            out = "F:" + ",".join(str(t) for t in ld([]))
        except ProviderNotFoundError:
            out = "NF"
        trace = [h for h in self.log if h < 500]
        return out + "|" + ",".join(map(str, trace))


def linear_reference(rec, req):
    """Direct property oracle, independent of the Coq model: chain of responsibility over the recipe in order."""
    def matches(c):
        return c[1] == req if c[0] == "exact" else req in c[1]

    def go(items):
        for k, (c, b, h) in enumerate(items):
            if not matches(c):
                continue
            if b[0] == "answer":
                return ("F", [b[1]]), [h]
            if b[0] == "terminal":
                return ("T", None), [h]
            if b[0] == "decline":
                o, tr = go(items[k + 1:])
                return o, [h] + tr
            if b[0] in ("first", "last"):
                o, tr = go(items[k + 1:])
                if o[0] == "F":
                    o = ("F", [50 + b[1]] + o[1]) if b[0] == "first" else ("F", o[1] + [50 + b[1]])
                return o, [h] + tr
            o, _ = go(nested_recipe(b))
            if o[0] == "F":
                return o, [h]
            if o[0] == "T":
                return o, [h]
            o, tr = go(items[k + 1:])
            return o, [h] + tr
        return ("N", None), []
    o, tr = go(rec)
    return ("F:" + ",".join(map(str, o[1])) if o[0] == "F" else "NF") + "|" + ",".join(map(str, tr))


def recursive_chain_block(rep, r, n):
    """Chain.FIRST / Chain.LAST on locations inside self-referencing models: the user function must be composed at
    every level of the recursion (the recursion stub must stand for the chained loader). Direct oracle: a hand
    written recursive loader for the same model."""
    from dataclasses import dataclass
    from typing import List, Optional

    from adaptix import Chain, P, Retort, loader
    bad = 0
    total = 0
    for i in range(n):
        @dataclass
        class Node:
            value: int
            child: Optional["Node"] = None
            kids: List["Node"] = None  # type: ignore[assignment]
        Node.__annotations__["child"] = Optional[Node]
        Node.__annotations__["kids"] = List[Node]
        where = r.choice(["child", "kids", "node", "value"])
        chain = r.choice([Chain.FIRST, Chain.LAST])
        calls = []

        def f(x, calls=calls):
            calls.append(1)
            return x
        pred = {"child": P[Node].child, "kids": P[Node].kids, "node": Node, "value": P[Node].value}[where]
        depth = r.randint(1, 4)

        def build(d):
            if d == 0:
                return {"value": d, "child": None, "kids": []}
            return {"value": d, "child": build(d - 1), "kids": [build(d - 1)] if d % 2 else []}
        data = build(depth)

        def count_nodes(x):
            return 1 + (count_nodes(x["child"]) if x["child"] else 0) + sum(count_nodes(k) for k in x["kids"])
        nodes = count_nodes(data)
        expected = {"child": nodes, "kids": nodes, "node": nodes, "value": nodes}[where]
        retort = Retort(recipe=[loader(pred, f, chain)])
        try:
            retort.load(data, Node)
            got = len(calls)
        except Exception as e:  # noqa: BLE001
            got = "raised " + type(e).__name__
        total += 1
        if got != expected:
            bad += 1
            rep.violation(f"recursive-chain:{where}:{chain.name}", "property-violated",
                          {"what": "chained user function not composed exactly once per occurrence in a recursive model",
                           "location": where, "chain": chain.name, "depth": depth,
                           "expected_calls": expected, "observed": got})
    return total, bad


def shrink(world, segs, req, variant):
    """delta-debug the recipe while the library keeps disagreeing with the linear reference"""
    flat = [(si, it) for si, s in enumerate(segs) for it in s]

    def rebuild(fl):
        out = [[], [], [], []]
        for si, it in fl:
            out[si].append(it)
        return tuple(out)

    def bad(fl):
        s = rebuild(fl)
        full = s[0] + s[1] + s[2] + s[3]
        return world.run(s, req, variant) != linear_reference(full, req)
    changed = True
    while changed:
        changed = False
        for i in range(len(flat)):
            cand = flat[:i] + flat[i + 1:]
            if bad(cand):
                flat = cand
                changed = True
                break
    return rebuild(flat)


def sig_of(segs, req):
    full = segs[0] + segs[1] + segs[2] + segs[3]
    kinds = ",".join(("E" if c[0] == "exact" else "O") + b[0][0] for c, b, h in full)
    return f"recipe[{kinds}]"


def directed_recipes(rep):
    """public-API scenarios that random recipes reach rarely: a predicate that is an OR of exact classes after a chaining
    provider for one of them; extend() given a provider object the retort already holds"""
    from dataclasses import dataclass

    from adaptix import Chain, P, Retort, loader

    def f(x):
        return ("f", x)

    def g(x):
        return ("g", x)
    n = 0
    ors = {"P[int, str]": lambda: P[int, str], "P[int] | P[str]": lambda: P[int] | P[str], "P[str, int]": lambda: P[str, int],
           "P[int, str, bytes]": lambda: P[int, str, bytes]}
    for oname, mk in ors.items():
        for chain, want_int in ((Chain.FIRST, ("g", ("f", 1))), (Chain.LAST, ("f", ("g", 1)))):
            for first_pred, req, datum, want in ((int, int, 1, want_int), (int, str, "s", ("g", "s")), (str, int, 1, ("g", 1))):
                n += 1
                rt = Retort(recipe=[loader(first_pred, f, chain), loader(mk(), g)])
                try:
                    got = rt.load(datum, req)
                except Exception as e:  # noqa: BLE001
                    got = f"raises {type(e).__name__}"
                if got != want:
                    rep.violation(f"directed:or-of-exact-after-chain:{chain.name}", "property-violated",
                                  {"what": f"recipe [loader({first_pred.__name__}, f, Chain.{chain.name}), loader({oname}, g)], load({datum!r}, "
                                           f"{req.__name__}) = {got!r}; the next matching provider in recipe order gives {want!r}"})

    @dataclass
    class Model:
        value: int

    inc = loader(int, lambda x: x + 1, Chain.FIRST)
    int_l = loader(int, lambda x: "int-loader")
    field_l = loader(P[Model].value, lambda x: "field-loader")
    cases = [
        ("[inc].extend([inc])", lambda: Retort(recipe=[inc]).extend(recipe=[inc]).load(1, int), lambda: Retort(recipe=[inc, inc]).load(1, int)),
        ("[field, int].extend([int])", lambda: Retort(recipe=[field_l, int_l]).extend(recipe=[int_l]).load({"value": 1}, Model),
         lambda: Retort(recipe=[int_l, field_l, int_l]).load({"value": 1}, Model)),
        ("[field, int].extend([int, field])", lambda: Retort(recipe=[field_l, int_l]).extend(recipe=[int_l, field_l]).load({"value": 1}, Model),
         lambda: Retort(recipe=[int_l, field_l, field_l, int_l]).load({"value": 1}, Model)),
        ("used [field, int].extend([int])", lambda: _used(Retort(recipe=[field_l, int_l]), Model).extend(recipe=[int_l]).load({"value": 1}, Model),
         lambda: Retort(recipe=[int_l, field_l, int_l]).load({"value": 1}, Model)),
    ]
    for label, got_f, want_f in cases:
        n += 1
        try:
            got = got_f()
        except Exception as e:  # noqa: BLE001
            got = f"raises {type(e).__name__}"
        want = want_f()
        if got != want:
            rep.violation("directed:extend-with-held-provider", "property-violated",
                          {"what": f"{label}: extend() prepends, so the result must equal that of the retort built with the concatenated "
                                   f"recipe: got {got!r}, expected {want!r}"})
    return n


def _used(rt, tp):
    rt.get_loader(tp)
    return rt


def run(rep, tier, seed):
    proof = lib.proof_stage(rep, PID)
    world = World()
    r = random.Random(seed)
    cases = []
    n = 700 if tier == "quick" else 12000
    for i in range(n):
        total = r.choice([1, 2, 3, 3, 4, 5, 6, 7, 8])
        rec = gen_recipe(r, total)
        cuts = sorted(r.randint(0, total) for _ in range(3))
        segs = (rec[:cuts[0]], rec[cuts[0]:cuts[1]], rec[cuts[1]:cuts[2]], rec[cuts[2]:])
        cases.append((segs, r.randrange(NT), r.randrange(32)))
    # exhaustive block: all recipes of length <= L over a small alphabet, all requests among {T0, T1}
    alpha_c = [("exact", 0), ("exact", 1), ("other", (0, 1, 2, 3), 0), ("other", (), 0)]
    alpha_b = [("answer", 1), ("decline",), ("first", 2)]
    L = 3 if tier == "quick" else 4
    for ln in range(1, L + 1):
        for combo in itertools.product(itertools.product(alpha_c, alpha_b), repeat=ln):
            rec = [(c, b, i) for i, (c, b) in enumerate(combo)]
            for req in (0, 1):
                cases.append((([], rec, [], []), req, 0))
    expected, coq_cases, viol = [], [], 0
    for segs, req, variant in cases:
        full = segs[0] + segs[1] + segs[2] + segs[3]
        got = world.run(segs, req, variant)
        expected.append(got)
        tbl = coq_beh_table(full, req, [])
        coq_cases.append((f"({coq_list(tbl)}, {coq_recipe(full)}, {req})", got))
        ref = linear_reference(full, req)
        if got != ref:
            viol += 1
            if viol <= 3:
                ms = shrink(world, segs, req, variant)
                mfull = ms[0] + ms[1] + ms[2] + ms[3]
                rep.violation(sig_of(ms, req), "property-violated",
                              {"case": {"segments": ms, "request": req, "variant": variant},
                               "library": world.run(ms, req, variant), "first_match_reference": linear_reference(mfull, req),
                               "how": "outcome 'F:<tags in application order>|<ids of handlers consulted, in order>'"})
    rc_total, rc_bad = recursive_chain_block(rep, r, 40 if tier == "quick" else 400)
    ce = CoqEval(PID, HEADER, "run")
    bad = ce.compare(coq_cases)
    for k, err in ce.errors:
        rep.violation("coq-eval-failed", "correspondence-diff", {"shard": k, "coq_error": err}, no_input=True)
    seen = 0
    for idx, got in bad:
        segs, req, variant = cases[idx]
        seen += 1
        if seen > 3:
            break
        rep.violation("diff:" + sig_of(segs, req), "correspondence-diff",
                      {"case": {"segments": segs, "request": req, "variant": variant},
                       "library": expected[idx], "model": got})
    nontriv = {repr(c) for c in cases if len(c[0][0] + c[0][1] + c[0][2] + c[0][3]) >= 2}
    rc_total += directed_recipes(rep)
    rep.cov.update({
        "evaluations": len(cases) + rc_total, "recursive_chain_cases": rc_total, "distinct_nontrivial": len(nontriv),
        "rule": "recipes of 1-8 providers (exact-class / other predicates rendered as abstract class, P combinators, "
                "P.ANY, negation, field name; behaviours answer / decline / terminal / Chain.FIRST / Chain.LAST / nested "
                "retort) split over extend(), instance recipe and two class recipes, request over 4 classes; plus every "
                f"recipe of length <= {L} over a 4x3 alphabet (exhaustive block); non-trivial = at least two providers; "
                "each case is also compared with a model-independent linear first-match reference",
        "samples": [{"segments": cases[i][0], "request": cases[i][1], "library": expected[i]} for i in (0, 1, 2)],
        "distribution": {"library_vs_reference_mismatches": viol, "model_vs_library_mismatches": len(bad),
                         "found": sum(e.startswith("F:") for e in expected), "not_found": sum(e.startswith("NF") for e in expected),
                         "exhaustive_block_max_len": L},
    })
    if not proof["ok"]:
        found = bool(rep.violations)
        for kind, text in proof["problems"]:
            rep.violation(f"{kind}-broken", "proof-broken" if kind == "proof" else kind,
                          {"what": f"{kind} stage failed for {PID}", "text": text}, no_input=not found)


def replay(rep, body):
    world = World()
    if "case" not in body:
        print("replay names a broken obligation, not an input:", body.get("what"))
        rep.violation(body["signature"], body["kind"], body, no_input=True)
        return
    c = body["case"]

    def fix(x):
        if isinstance(x, list):
            return tuple(fix(y) for y in x) if x and isinstance(x[0], str) else [fix(y) for y in x]
        return x
    segs = tuple([tuple(fix(it)) for it in s] for s in c["segments"])
    segs = tuple([(it[0], it[1], it[2]) for it in s] for s in segs)
    full = segs[0] + segs[1] + segs[2] + segs[3]
    got = world.run(segs, c["request"], c["variant"])
    ref = linear_reference(full, c["request"])
    print(f"library={got} first-match-reference={ref}")
    if got != ref:
        rep.violation(body["signature"], "property-violated", body)
