"""C15 - type normalisation is a canonical form.  Model: coq/Model/Norm.v, theorems: coq/Props/C15.v.

Hints are drawn from the model's grammar and rendered to typing objects with randomly chosen equivalent spellings;
the implementation's normal form is printed structurally (origins, args, union member order) and compared with the
model's.  A direct oracle on the implementation applies meaning-preserving rewrites (must normalise to equal forms
with equal hashes and equal member order) and single meaning-changing edits (must differ).
"""
import collections.abc
import enum
import random
import typing
from typing import Annotated, Any, Generic, Literal, NewType, Optional, TypeVar, Union

import lib
from lib import CoqEval, coq_list, coq_str

PID = "C15"
TYPED = "true"     # literal de-duplication by (type, value): the tree as repaired

ID_TUPLE = 1000


class World:
    def __init__(self):
        class A:
            pass

        class B:
            pass
        T = TypeVar("T")
        TB = TypeVar("TB", bound=A)
        TC = TypeVar("TC", int, str)

        class G1(Generic[T]):
            pass

        class G2(Generic[TB, TC]):
            pass

        class Color(enum.Enum):
            RED = 1
            BLUE = 2
        class Kind(str, enum.Enum):      # data mixins: a member equals (and hashes like) its plain value
            A = "a"
            B = "1"

        class Level(int, enum.Enum):
            LOW = 1
            ZERO = 0
        for c, n in ((A, "A"), (B, "B"), (G1, "G1"), (G2, "G2"), (Color, "Color"), (Kind, "Kind"), (Level, "Level")):
            c.__qualname__ = c.__name__ = n
        self.enums = {30: Color, 31: Kind, 32: Level}
        self.NT0 = NewType("NT0", int)
        self.NT1 = NewType("NT1", str)
        self.Color = Color
        self.objs = {0: int, 1: str, 2: bool, 3: float, 4: bytes, 5: A, 6: B,
                     10: list, 11: dict, 12: set, 13: frozenset, 14: G1, 15: G2,
                     16: collections.abc.Sequence, 17: collections.abc.Mapping,
                     20: self.NT0, 21: self.NT1, ID_TUPLE: tuple}
        self.alias = {10: typing.List, 11: typing.Dict, 12: typing.Set, 13: typing.FrozenSet,
                      16: typing.Sequence, 17: typing.Mapping}
        self.arity = {10: 1, 11: 2, 12: 1, 13: 1, 14: 1, 15: 2, 16: 1, 17: 2}
        self.params = {10: ["any"], 11: ["any", "any"], 12: ["any"], 13: ["any"], 14: ["any"],
                       15: [("bound", 5), ("constr", [0, 1])], 16: ["any"], 17: ["any", "any"]}
        self.plain = [0, 1, 2, 3, 4, 5, 6]
        self.generics = [10, 11, 12, 13, 14, 15, 16, 17]
        self.newtypes = [20, 21]
        self.by_obj = {v: k for k, v in self.objs.items()}

    def coq(self):
        special = {1001: Union, 1002: Literal, 1003: Annotated, 1004: Any, 1005: None}
        strs = coq_list([f"({k}, {coq_str(str(v))})" for k, v in sorted({**self.objs, **special}.items())])

        def tv(p):
            if p == "any":
                return "TVAny"
            if p[0] == "bound":
                return f"(TVBound {p[1]})"
            return f"(TVConstr {coq_list([str(c) for c in p[1]])})"
        params = coq_list([f"({g}, {coq_list([tv(p) for p in ps])})" for g, ps in sorted(self.params.items())])
        en = coq_list([f"({c}, {i}, {coq_str(m.name)})" for c, E in sorted(self.enums.items()) for i, m in enumerate(E)])
        es = coq_list([f"({c}, {coq_str(str(E))})" for c, E in sorted(self.enums.items())])
        ec = coq_list([f"({c}, {coq_str(E.__name__)})" for c, E in sorted(self.enums.items())])
        return f"(World {strs} {params} {en} {es} {ec})"


# ----------------------------------------------------------------------------------------------------------------------
# generation in the model's vocabulary

LIT_POOL = [("LInt", 0), ("LInt", 1), ("LInt", 2), ("LInt", -7), ("LInt", 10), ("LBool", True), ("LBool", False),
            ("LStr", "a"), ("LStr", "1"), ("LStr", "it's"), ("LStr", ""), ("LBytes", "a"), ("LBytes", "1"),
            ("LEnum", 30, 0), ("LEnum", 30, 1), ("LEnum", 31, 0), ("LEnum", 31, 1), ("LEnum", 32, 0), ("LEnum", 32, 1)]


class Gen:
    def __init__(self, seed, w):
        self.r = random.Random(seed)
        self.w = w

    def lits(self, allow_none=True):
        r = self.r
        ls = r.sample(LIT_POOL, r.randint(1, 4))
        out = [l for l in ls]
        if allow_none and r.random() < 0.2:
            out.insert(r.randrange(len(out) + 1), None)
        return out

    def hint(self, d=3):
        r = self.r
        k = r.random()
        if d <= 0 or k < 0.28:
            j = r.random()
            if j < 0.1:
                return ("HNone",)
            if j < 0.18:
                return ("HAny",)
            if j < 0.3:
                return ("HNewType", r.choice(self.w.newtypes))
            if j < 0.4:
                return ("HBare", r.choice(self.w.generics))
            if j < 0.45:
                return ("HTupleBare",)
            return ("HCls", r.choice(self.w.plain))
        if k < 0.42:
            g = r.choice(self.w.generics)
            return ("HGen", g, [self.arg_for(g, i, d - 1) for i in range(self.w.arity[g])])
        if k < 0.50:
            return ("HTupleFix", [self.hint(d - 1) for _ in range(r.randint(0, 3))])
        if k < 0.55:
            return ("HTupleVar", self.hint(d - 1))
        if k < 0.68:
            return ("HLit", self.lits())
        if k < 0.78:
            return ("HOpt", self.hint(d - 1))
        if k < 0.95:
            # at least two members: typing itself turns Union[X] into X (and then flattens Annotated[Annotated[..]])
            return ("HUnion", [self.hint(d - 1) for _ in range(r.randint(2, 4))])
        inner = self.hint(d - 1)
        if inner[0] == "HAnn":
            inner = ("HCls", 0)
        return ("HAnn", inner, [r.randrange(5) for _ in range(r.randint(1, 2))])

    def arg_for(self, g, i, d):
        # respect the bound / constraints of G2 so that the hint is one a user could write
        p = self.w.params[g][i]
        if p == "any":
            return self.hint(d)
        if p[0] == "bound":
            return ("HCls", 5)
        return ("HCls", self.r.choice(p[1]))


# ----------------------------------------------------------------------------------------------------------------------
# rendering

def coq_lit(l):
    if l is None:
        return "None"
    if l[0] == "LInt":
        return f"(Some (LInt ({l[1]})%Z))"
    if l[0] == "LBool":
        return f"(Some (LBool {'true' if l[1] else 'false'}))"
    if l[0] in ("LStr", "LBytes"):
        return f"(Some ({l[0]} {coq_str(l[1])}))"
    return f"(Some (LEnum {l[1]} {l[2]}))"


def coq_hint(h):
    k = h[0]
    if k in ("HNone", "HAny", "HTupleBare"):
        return k
    if k in ("HCls", "HNewType", "HBare"):
        return f"({k} {h[1]})"
    if k == "HGen":
        return f"(HGen {h[1]} {coq_list([coq_hint(a) for a in h[2]])})"
    if k in ("HTupleFix", "HUnion"):
        return f"({k} {coq_list([coq_hint(a) for a in h[1]])})"
    if k in ("HTupleVar", "HOpt"):
        return f"({k} {coq_hint(h[1])})"
    if k == "HLit":
        return f"(HLit {coq_list([coq_lit(l) for l in h[1]])})"
    return f"(HAnn {coq_hint(h[1])} {coq_list([str(m) for m in h[2]])})"


def py_lit(w, l):
    if l is None:
        return None
    if l[0] in ("LInt", "LBool", "LStr"):
        return l[1]
    if l[0] == "LBytes":
        return l[1].encode()
    return list(w.enums[l[1]])[l[2]]


def or_able(x):
    return x is None or isinstance(x, type) or hasattr(x, "__or__")


def py_hint(w, h, rnd):
    k = h[0]
    r = rnd
    if k == "HNone":
        return None if r.random() < 0.7 else type(None)
    if k == "HAny":
        return Any
    if k in ("HCls", "HNewType"):
        return w.objs[h[1]]
    if k == "HBare":
        return w.alias[h[1]] if h[1] in w.alias and r.random() < 0.5 else w.objs[h[1]]
    if k == "HGen":
        args = tuple(py_hint(w, a, rnd) for a in h[2])
        base = w.alias[h[1]] if h[1] in w.alias and r.random() < 0.5 else w.objs[h[1]]
        return base[args if len(args) > 1 else args[0]]
    if k == "HTupleBare":
        return tuple if r.random() < 0.5 else typing.Tuple
    if k == "HTupleFix":
        args = tuple(py_hint(w, a, rnd) for a in h[1])
        if not args:
            return typing.Tuple[()] if r.random() < 0.5 else tuple[()]
        return (typing.Tuple if r.random() < 0.5 else tuple)[args]
    if k == "HTupleVar":
        return (typing.Tuple if r.random() < 0.5 else tuple)[py_hint(w, h[1], rnd), ...]
    if k == "HLit":
        return Literal[tuple(py_lit(w, l) for l in h[1])]
    if k == "HOpt":
        x = py_hint(w, h[1], rnd)
        j = r.randrange(4)
        if j == 0:
            return Optional[x]
        if j == 1:
            return Union[x, None] if r.random() < 0.5 else Union[None, x]
        try:
            return (x | None) if j == 2 else (None | x)
        except TypeError:
            return Optional[x]
    if k == "HUnion":
        xs = [py_hint(w, a, rnd) for a in h[1]]
        j = r.randrange(3)
        if j == 0 or len(xs) == 1:
            return Union[tuple(xs)]
        if j == 1 and len(xs) >= 3:
            return Union[xs[0], Union[tuple(xs[1:])]]
        try:
            acc = xs[0] | xs[1]
            for x in xs[2:]:
                acc = acc | x
            return acc
        except TypeError:
            return Union[tuple(xs)]
    return Annotated[(py_hint(w, h[1], rnd), *h[2])]


def show_lit_py(w, v):
    if isinstance(v, enum.Enum):
        c = next(c for c, E in w.enums.items() if type(v) is E)
        return f"e{c}_{list(w.enums[c]).index(v)}"
    if isinstance(v, bool):
        return "b" + ("1" if v else "0")
    if isinstance(v, int):
        return f"i{v}"
    if isinstance(v, str):
        return "s" + v
    if isinstance(v, bytes):
        return "y" + v.decode()
    return "?" + repr(v)


def show_norm_py(w, n):
    from adaptix._internal.type_tools.normalize_type import BaseNormType
    o = n.origin
    if o is None:
        return "None"
    if o is Any:
        return "Any"
    if o is Union:
        return "U[" + ",".join(show_norm_py(w, a) for a in n.args) + "]"
    if o is Literal:
        return "L[" + ",".join(show_lit_py(w, a) for a in n.args) + "]"
    if o is Annotated:
        return "A[" + show_norm_py(w, n.args[0]) + ";" + ",".join(str(m) for m in n.args[1:]) + "]"
    if o is tuple:
        if n.args and n.args[-1] is Ellipsis:
            return "TV[" + show_norm_py(w, n.args[0]) + "]"
        return "T[" + ",".join(show_norm_py(w, a) for a in n.args) + "]"
    oid = w.by_obj.get(o, "?")
    if oid in w.newtypes:
        return f"NT{oid}"
    if oid in w.generics:
        return f"G{oid}[" + ",".join(show_norm_py(w, a) if isinstance(a, BaseNormType) else "?" for a in n.args) + "]"
    return f"C{oid}" + ("" if not n.args else "[?]")


HEADER = """From AV Require Import Model.Norm Model.Harness.
Local Open Scope string_scope.
Definition show_lit (l : lit) : string :=
  match l with LInt z => "i" ++ show_Z z | LBool b => "b" ++ show_bool b | LStr s => "s" ++ s | LBytes s => "y" ++ s
  | LEnum c i => "e" ++ show_nat c ++ "_" ++ show_nat i end.
Fixpoint show_norm (n : norm) : string :=
  match n with
  | NNone => "None" | NAny => "Any" | NCls c => "C" ++ show_nat c | NNewType c => "NT" ++ show_nat c
  | NGen g args => "G" ++ show_nat g ++ "[" ++ join "," (map show_norm args) ++ "]"
  | NTupleFix ns => "T[" ++ join "," (map show_norm ns) ++ "]"
  | NTupleVar x => "TV[" ++ show_norm x ++ "]"
  | NLit ls => "L[" ++ join "," (map show_lit ls) ++ "]"
  | NUnion ns => "U[" ++ join "," (map show_norm ns) ++ "]"
  | NAnn x ms => "A[" ++ show_norm x ++ ";" ++ join "," (map show_nat ms) ++ "]"
  end.
"""


# ----------------------------------------------------------------------------------------------------------------------
# rewrites (model level)

def preserving(g, h, d=2):
    """one random meaning-preserving rewrite somewhere in h (or h itself when none applies)"""
    r = g.r
    k = h[0]
    if k == "HUnion":
        hs = list(h[1])
        j = r.randrange(6)
        if j == 0:
            r.shuffle(hs)
            return ("HUnion", hs)
        if j == 1:
            return ("HUnion", hs + [r.choice(hs)])
        if j == 2 and len(hs) >= 2:
            c = r.randrange(1, len(hs))
            one = lambda l: l[0] if len(l) == 1 else ("HUnion", l)     # noqa: E731  (typing turns Union[X] into X)
            return ("HUnion", [one(hs[:c]), one(hs[c:])])
        if j == 3 and ("HNone",) in hs and len(hs) >= 2:
            rest = [x for x in hs if x != ("HNone",)]
            if rest:
                return ("HOpt", ("HUnion", rest))
        if j == 4 and d > 0:
            i = r.randrange(len(hs))
            hs[i] = preserving(g, hs[i], d - 1)
            return ("HUnion", hs)
        return ("HUnion", hs[::-1])
    if k == "HOpt":
        j = r.randrange(3)
        if j == 0:
            return ("HUnion", [h[1], ("HNone",)])
        if j == 1:
            return ("HUnion", [("HNone",), h[1], ("HNone",)])
        return ("HOpt", preserving(g, h[1], d - 1)) if d > 0 else h
    if k == "HLit":
        ls = list(h[1])
        j = r.randrange(4)
        if j == 0:
            r.shuffle(ls)
            return ("HLit", ls)
        if j == 1 and len(ls) >= 2:
            c = r.randrange(1, len(ls))
            return ("HUnion", [("HLit", ls[:c]), ("HLit", ls[c:])])
        if j == 2:
            return ("HLit", ls + [r.choice(ls)])
        if None in ls and len(ls) >= 2:
            return ("HOpt", ("HLit", [l for l in ls if l is not None]))
        return ("HLit", ls[::-1])
    if k == "HNone":
        return ("HLit", [None])
    if k == "HBare":
        ps = g.w.params[h[1]]
        args = []
        for p in ps:
            if p == "any":
                args.append(("HAny",))
            elif p[0] == "bound":
                args.append(("HCls", p[1]))
            else:
                args.append(("HUnion", [("HCls", c) for c in p[1]]) if len(p[1]) > 1 else ("HCls", p[1][0]))
        return ("HGen", h[1], args)
    if k == "HTupleBare":
        return ("HTupleVar", ("HAny",))
    if k == "HGen" and h[2] and d > 0:
        args = list(h[2])
        i = r.randrange(len(args))
        args[i] = preserving(g, args[i], d - 1)
        return ("HGen", h[1], args)
    if k == "HTupleFix" and h[1] and d > 0:
        args = list(h[1])
        i = r.randrange(len(args))
        args[i] = preserving(g, args[i], d - 1)
        return ("HTupleFix", args)
    if k == "HTupleVar" and d > 0:
        return ("HTupleVar", preserving(g, h[1], d - 1))
    if k == "HAnn" and d > 0:
        return ("HAnn", preserving(g, h[1], d - 1), h[2])
    return h


def changing(g, h):
    """a single meaning-changing edit at the top of h, or None"""
    r = g.r
    k = h[0]
    if k == "HCls":
        return ("HCls", r.choice([c for c in g.w.plain if c != h[1]]))
    if k == "HLit":
        ls = list(h[1])
        i = r.randrange(len(ls))
        l = ls[i]
        if l is None:
            return None
        twin = {("LInt", 0): ("LBool", False), ("LInt", 1): ("LBool", True), ("LBool", True): ("LInt", 1),
                ("LBool", False): ("LInt", 0), ("LStr", "a"): ("LBytes", "a"), ("LBytes", "a"): ("LStr", "a"),
                ("LStr", "1"): ("LInt", 1), ("LBytes", "1"): ("LStr", "1")}.get(tuple(l))
        if twin is None or list(twin) in [list(x) for x in ls if x is not None]:
            return None
        ls[i] = twin
        return ("HLit", ls)
    if k == "HGen" and h[1] in (10, 12, 13, 14, 16):
        a = h[2][0]
        return ("HGen", h[1], [("HCls", 3) if a != ("HCls", 3) else ("HCls", 4)])
    if k == "HOpt":
        return h[1] if h[1] != ("HNone",) and h[1][0] not in ("HOpt", "HUnion", "HLit", "HAny") else None
    if k == "HTupleFix":
        return ("HTupleFix", list(h[1]) + [("HCls", 0)])
    if k == "HNewType":
        return ("HNewType", 41 - h[1])
    return None


def run(rep, tier, seed):
    from adaptix._internal.type_tools import normalize_type
    w = World()
    proof = lib.proof_stage(rep, PID, extra_trusted=[
        "oracle: str() of classes/NewTypes/enums as printed by the interpreter, shipped as a table; typing's own "
        "pre-processing of Union/Literal/Optional (flattening, type-aware de-duplication) is part of what the model "
        "describes as a whole (hint -> normal form)"])
    g = Gen(seed, w)
    rnd = random.Random(seed + 7)
    n = 1500 if tier == "quick" else 30000
    hints = [g.hint(g.r.choice([1, 2, 2, 3, 3])) for _ in range(n)]
    # directed family: literal look-alikes in every union shape
    for a, b in [(("LInt", 0), ("LBool", False)), (("LInt", 1), ("LBool", True)), (("LStr", "a"), ("LBytes", "a")),
                 (("LStr", "a"), ("LEnum", 31, 0)), (("LStr", "1"), ("LEnum", 31, 1)), (("LInt", 1), ("LEnum", 32, 0)),
                 (("LInt", 0), ("LEnum", 32, 1)), (("LBool", True), ("LEnum", 32, 0)), (("LEnum", 30, 0), ("LEnum", 32, 0))]:
        hints += [("HUnion", [("HLit", [a]), ("HLit", [b])]), ("HOpt", ("HLit", [a, b])), ("HLit", [a, b, None]),
                  ("HUnion", [("HLit", [b]), ("HCls", 0), ("HLit", [a])]), ("HLit", [b, a]),
                  ("HGen", 10, [("HUnion", [("HLit", [a]), ("HLit", [b])])])]
    _cached = normalize_type
    if hasattr(_cached, "cache_clear"):
        # typing's Union / Literal objects compare equal whatever the order of their members, so the lru_cache of
        # normalize_type answers a re-ordered spelling with the form computed for the first spelling it saw (until the
        # entry is evicted).  The property is about the normaliser: every call below starts from an empty cache.
        def normalize_type(tp):     # noqa: F811
            _cached.cache_clear()
            return _cached(tp)
    cases, expected = [], []
    for h in hints:
        try:
            got = show_norm_py(w, normalize_type(py_hint(w, h, rnd)))
        except Exception as e:  # noqa: BLE001
            got = "EXC:" + type(e).__name__
        cases.append((coq_hint(h), got))
        expected.append(got)
    header = HEADER + f"Definition W := {w.coq()}.\nDefinition run (h : hint) : string := show_norm (normalize W {TYPED} h).\n"
    ce = CoqEval(PID, header, "run", shard=300)
    bad = ce.compare(cases)
    for k, err in ce.errors:
        rep.violation("coq-eval-failed", "correspondence-diff", {"shard": k, "coq_error": err}, no_input=True)

    # ---- direct oracle on the implementation: rewrites
    def nf(h):
        return normalize_type(py_hint(w, h, rnd))
    pres_checked = chg_checked = 0
    for h in hints:
        h2 = h
        for _ in range(g.r.randint(1, 3)):
            h2 = preserving(g, h2)
        if h2 != h:
            pres_checked += 1
            a, b = nf(h), nf(h2)
            if not (a == b and hash(a) == hash(b) and show_norm_py(w, a) == show_norm_py(w, b)):
                rep.violation(sig_pair("preserving", h, h2), "property-violated",
                              {"what": "meaning-preserving rewrite changes the normal form (or its hash / member order)",
                               "hint": h, "rewritten": h2, "norm": show_norm_py(w, a), "norm_rewritten": show_norm_py(w, b),
                               "equal": a == b, "hash_equal": hash(a) == hash(b)})
        h3 = changing(g, h)
        if h3 is not None:
            chg_checked += 1
            a, b = nf(h), nf(h3)
            if a == b:
                rep.violation(sig_pair("changing", h, h3), "property-violated",
                              {"what": "hints denoting different types normalise to equal forms",
                               "hint": h, "edited": h3, "norm": show_norm_py(w, a), "norm_edited": show_norm_py(w, b)})
        # idempotence through the form's own source
        a = nf(h)
        try:
            again = normalize_type(a.source)
            if not (again == a and show_norm_py(w, again) == show_norm_py(w, a)):
                rep.violation(sig_pair("idempotence", h, h), "property-violated",
                              {"what": "normalising the source of a normal form gives a different form",
                               "hint": h, "norm": show_norm_py(w, a), "again": show_norm_py(w, again)})
        except Exception as e:  # noqa: BLE001
            rep.violation("idempotence-raises:" + type(e).__name__, "property-violated", {"hint": h, "error": repr(e)})

    # directed: union members of one origin that differ only in an argument that is not a type (the Ellipsis of a
    # variable-length tuple, the members of a nested Literal), written in both orders and under Optional / List
    def lit(x):
        return ("HLit", [("LStr", x)])
    same_origin = [
        [("HTupleFix", [("HCls", 0)]), ("HTupleVar", ("HCls", 0))],
        [("HTupleFix", [("HCls", 1), ("HCls", 1)]), ("HTupleVar", ("HCls", 1))],
        [("HGen", 10, [lit("a")]), ("HGen", 10, [lit("1")])],
        [("HGen", 12, [("HLit", [("LInt", 0)])]), ("HGen", 12, [("HLit", [("LBool", False)])])],
        [("HGen", 11, [("HCls", 1), lit("a")]), ("HGen", 11, [("HCls", 1), lit("")])],
        [("HTupleFix", []), ("HTupleVar", ("HAny",))],
    ]
    for ms in same_origin:
        for wrap in (lambda u: u, lambda u: ("HOpt", u), lambda u: ("HGen", 10, [u]), lambda u: ("HUnion", [u, ("HCls", 3)])):
            h1, h2 = wrap(("HUnion", list(ms))), wrap(("HUnion", list(reversed(ms))))
            pres_checked += 1
            try:
                a, b = nf(h1), nf(h2)
            except Exception as e:  # noqa: BLE001
                rep.violation("directed-reorder-raises:" + type(e).__name__, "property-violated", {"hint": h1, "error": repr(e)})
                continue
            if not (a == b and hash(a) == hash(b) and show_norm_py(w, a) == show_norm_py(w, b)):
                rep.violation(sig_pair("preserving", h1, h2), "property-violated",
                              {"what": "re-ordering union members of one origin (they differ in a non-type argument only) changes the "
                                       "normal form", "hint": h1, "rewritten": h2, "norm": show_norm_py(w, a),
                               "norm_rewritten": show_norm_py(w, b), "equal": a == b, "hash_equal": hash(a) == hash(b)})
    seen = set()
    for idx, got in bad:
        h = hints[idx]
        s = sig_one(h, expected[idx], got)
        if s in seen:
            continue
        seen.add(s)
        if len(seen) > 5:
            break
        rep.violation(s, "correspondence-diff", {"hint": h, "implementation": expected[idx], "model": got})
    same_name_probe(rep, normalize_type)
    n_cross = cross_module_probe(rep, normalize_type)
    rep.cov.update({
        "evaluations": len(hints) + pres_checked + chg_checked + n_cross,
        "distinct_nontrivial": len({repr(h) for h in hints if h[0] in ("HUnion", "HOpt", "HLit", "HGen", "HTupleFix", "HAnn")}),
        "rule": "hints from the model grammar (depth <= 3; None, Any, 7 classes, NewTypes, 8 generics incl. bound/constrained "
                "user generics and abc aliases, tuples, Literal with int/bool/str/bytes/enum/None members, Optional, Union, "
                "Annotated) rendered with random equivalent spellings (typing alias vs builtin, Optional / Union / |, nested "
                "unions); each also put through 1-3 meaning-preserving rewrites and one meaning-changing edit on the "
                "implementation; non-trivial = compound hint; distinct by structure",
        "samples": [{"hint": hints[i], "implementation": expected[i]} for i in (0, 1, 2)],
        "distribution": {"top_constructors": {k: sum(1 for h in hints if h[0] == k) for k in
                                              ("HCls", "HGen", "HBare", "HLit", "HOpt", "HUnion", "HTupleFix", "HTupleVar", "HAnn")},
                         "preserving_rewrites_checked": pres_checked, "changing_edits_checked": chg_checked,
                         "model_vs_library_mismatches": len(bad)},
    })
    if not proof["ok"]:
        found = bool(rep.violations)
        for kind, text in proof["problems"]:
            rep.violation(f"{kind}-broken", "proof-broken" if kind == "proof" else kind,
                          {"what": f"{kind} stage failed for {PID}", "text": text}, no_input=not found)


def same_name_probe(rep, normalize_type):
    """hypothesis of C15_union_canonical made explicit: ordering keys separate the members. Two distinct classes
    with the same module and qualified name have equal keys."""
    def mk():
        class Same:
            pass
        return Same
    X, Y = mk(), mk()
    a = normalize_type(Union[X, Y, int])
    # defeat typing's and adaptix's caches, which would hand back the first result for the == hint
    from adaptix._internal.type_tools import normalize_type as nt_mod  # noqa: F401
    from adaptix._internal.type_tools.normalize_type import _cached_normalize
    _cached_normalize.cache_clear()
    b = normalize_type(Union[Y, X, int])
    if a != b:
        rep.violation("same-named-classes-order", "property-violated",
                      {"what": "Union[X, Y] and Union[Y, X] normalise to unequal forms when X and Y are distinct classes "
                               "with the same module and qualified name (equal ordering keys)",
                       "a": repr(a), "b": repr(b)})


def cross_module_probe(rep, normalize_type):
    """bare generic = generic with its implicit parameters, when the type variable comes from ANOTHER module and its bound /
    constraints are forward references: they name classes of the module that declares the type variable"""
    import sys
    import types
    a = types.ModuleType("verif_c15_mod_a")
    sys.modules[a.__name__] = a
    exec("from typing import TypeVar\n"                                                     # noqa: S102
         "class Item: pass\nclass Other: pass\n"
         "TB = TypeVar('TB', bound='Item')\nTC = TypeVar('TC', 'Item', 'Other')\n", a.__dict__)
    b = types.ModuleType("verif_c15_mod_b")
    sys.modules[b.__name__] = b
    exec("from typing import Generic\nfrom verif_c15_mod_a import TB, TC\n"                 # noqa: S102
         "class Item: pass\nclass Other: pass\n"
         "class Box(Generic[TB]): pass\nclass Pair(Generic[TC]): pass\n", b.__dict__)
    c = types.ModuleType("verif_c15_mod_c")
    sys.modules[c.__name__] = c
    exec("from typing import Generic\nfrom verif_c15_mod_a import TB, TC\n"                 # noqa: S102
         "class Box(Generic[TB]): pass\nclass Pair(Generic[TC]): pass\n", c.__dict__)
    n = 0
    for mod, label in ((b, "the generic's module has unrelated classes of the same names"), (c, "the generic's module lacks the names")):
        for bare, full, wrong in ((mod.Box, mod.Box[a.Item], getattr(mod, "Item", None) and mod.Box[mod.Item]),
                                  (mod.Pair, mod.Pair[Union[a.Item, a.Other]],
                                   getattr(mod, "Item", None) and mod.Pair[Union[mod.Item, mod.Other]])):
            n += 1
            try:
                nb, nf = normalize_type(bare), normalize_type(full)
            except Exception as e:  # noqa: BLE001
                rep.violation(f"cross-module-bound:raises:{bare.__name__}", "property-violated",
                              {"what": f"normalising bare {bare.__name__} whose type variable is declared in another module "
                                       f"({label}) raises {type(e).__name__}: {str(e)[:120]}"})
                continue
            if nb != nf or hash(nb) != hash(nf):
                rep.violation(f"cross-module-bound:differs:{bare.__name__}", "property-violated",
                              {"what": f"bare {bare.__name__} does not normalise like {full} ({label})", "bare": repr(nb), "full": repr(nf)})
            if wrong is not None and normalize_type(wrong) == nb:
                rep.violation(f"cross-module-bound:collapses:{bare.__name__}", "property-violated",
                              {"what": f"bare {bare.__name__} normalises like {wrong}: the forward reference was resolved in the "
                                       "generic's module instead of the type variable's", "bare": repr(nb)})
    return n


def head(h):
    return h[0] if isinstance(h, (list, tuple)) else str(h)


def sig_pair(kind, h, h2):
    return f"{kind}:{head(h)}->{head(h2)}:{lits_sig(h)}"


def lits_sig(h):
    s = repr(h)
    tags = []
    if "LBool" in s and "LInt" in s:
        tags.append("bool+int")
    if "LBytes" in s and "LStr" in s:
        tags.append("bytes+str")
    return "+".join(tags) or "-"


def sig_one(h, impl, model):
    return f"diff:{head(h)}:{lits_sig(h)}"


def replay(rep, body):
    from adaptix._internal.type_tools import normalize_type
    w = World()
    rnd = random.Random(1)

    def fix(x):
        if isinstance(x, list):
            if x and isinstance(x[0], str) and (x[0].startswith("H") or x[0].startswith("L")):
                return tuple(fix(y) for y in x)
            return [fix(y) for y in x]
        return x
    if body.get("signature", "").startswith("cross-module-bound:"):
        scratch = lib.ScratchReport(rep.pid, "quick", 0)
        cross_module_probe(scratch, normalize_type)
        if body["signature"] in scratch.found:
            print("reproduced:", body.get("what"))
            rep.violation(body["signature"], body["kind"], body)
        else:
            print("does not reproduce on the current tree")
        return
    if "hint" not in body:
        print("replay names a broken obligation, not an input:", body.get("what"))
        rep.violation(body["signature"], body["kind"], body, no_input=True)
        return
    h = fix(body["hint"])
    a = normalize_type(py_hint(w, h, rnd))
    print("hint:", h, "\nnormal form:", show_norm_py(w, a))
    for key in ("rewritten", "edited"):
        if key in body:
            b = normalize_type(py_hint(w, fix(body[key]), rnd))
            print(key, "->", show_norm_py(w, b), "equal:", a == b, "hash equal:", hash(a) == hash(b))
            if (key == "rewritten") != (a == b and show_norm_py(w, a) == show_norm_py(w, b)):
                rep.violation(body["signature"], "property-violated", body)
    if "model" in body and show_norm_py(w, a) != body["model"]:
        rep.violation(body["signature"], "correspondence-diff", body)
