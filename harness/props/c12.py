"""C12 - a shared retort is safe under concurrent first use (partial).
Model: coq/Model/Conc.v, theorems: coq/Props/C12.v (conc_safe for stubs compared by identity, refutation for stubs
compared by location, soundness of the executable replay; the facts about shared state the model rests on are
regenerated from /repo on every run and must equal the reviewed text).

Tie, part 1 - schedule exploration on the real code: threads are driven by sys.settrace line events restricted to the
files that touch shared state (no source hook); only one thread runs at a time and the scheduler decides at every line
who runs next.  Every schedule with ONE preemption point (thread A runs k lines, then B runs to completion, then A
finishes - for every k, both orders) is explored exhaustively per scenario, schedules with two preemption points and
three-thread schedules are sampled.  Every thread's result must be what a single-threaded run returns; loaders obtained
concurrently are called again afterwards.
Tie, part 2 - trace conformance: under the same scheduler the accesses to the call cache, the stubs and the loader cache
are recorded as events and replayed by the model's executable transition function; the whole trace must be accepted.
"""
import itertools
import random
import sys
import threading
from dataclasses import dataclass, field
from typing import Any, Dict, List, Optional

import lib
from lib import CoqEval, coq_list

PID = "C12"
ANCHOR = ("retort/searching_retort.py", "retort/builtin_mediator.py", "retort/operating_retort.py", "retort/request_bus.py",
          "morphing/facade/retort.py", "code_tools/compiler.py", "retort/base_retort.py")


@dataclass
class Node:
    v: int
    children: List["Node"] = field(default_factory=list)


@dataclass
class A:
    x: int
    b: Optional["B"] = None


@dataclass
class B:
    y: int
    a: Optional[A] = None
    items: List[A] = field(default_factory=list)


@dataclass
class Plain:
    a: int
    b: str


@dataclass
class Tree:
    root: Node
    index: Dict[str, Node]


NODE_DATA = {"v": 1, "children": [{"v": 2, "children": [{"v": 3, "children": []}]}, {"v": 4, "children": []}]}
A_DATA = {"x": 1, "b": {"y": 2, "a": {"x": 3, "b": None}, "items": [{"x": 4, "b": None}]}}
B_DATA = {"y": 5, "a": {"x": 6, "b": {"y": 7, "a": None, "items": []}}, "items": []}
TREE_DATA = {"root": NODE_DATA, "index": {"k": NODE_DATA}}


def scenarios():
    from adaptix import Retort
    mk = lambda: Retort()      # noqa: E731
    return [
        ("same-recursive", mk, [lambda r: r.load(NODE_DATA, Node), lambda r: r.load(NODE_DATA, Node)]),
        ("mutual", mk, [lambda r: r.load(A_DATA, A), lambda r: r.load(B_DATA, B)]),
        ("container-vs-model", mk, [lambda r: r.load([NODE_DATA], List[Node]), lambda r: r.load(NODE_DATA, Node)]),
        ("outer-vs-inner", mk, [lambda r: r.load(TREE_DATA, Tree), lambda r: r.load(NODE_DATA, Node)]),
        ("plain-first-use", mk, [lambda r: r.load({"a": 1, "b": "x"}, Plain), lambda r: r.dump(Plain(1, "x"), Plain)]),
        ("dump-recursive", mk, [lambda r: r.dump(Node(1, [Node(2)]), Node), lambda r: r.load(NODE_DATA, Node)]),
        ("replace-first-use", lambda: Retort().replace(strict_coercion=False),
         [lambda r: r.load({"a": "1", "b": "x"}, Plain), lambda r: r.load({"a": 2, "b": "y"}, Plain)]),
    ]


class Deadlock(Exception):
    pass


class Sched:
    """cooperative scheduler: the plan is a list of (thread, number of lines) segments; afterwards threads run to completion
    in index order"""

    def __init__(self, n, plan):
        self.n = n
        self.plan = list(plan)
        self.cv = threading.Condition()
        self.alive = set(range(n))
        self.steps = [0] * n
        self.turn = self._next_turn(None)
        self.failed = None

    def _next_turn(self, cur):
        while self.plan and (self.plan[0][1] <= 0 or self.plan[0][0] not in self.alive):
            self.plan.pop(0)
        if self.plan:
            return self.plan[0][0]
        return min(self.alive) if self.alive else None

    def point(self, tid):
        with self.cv:
            self.steps[tid] += 1
            if self.plan and self.plan[0][0] == tid:
                self.plan[0] = (tid, self.plan[0][1] - 1)
            nxt = self._next_turn(tid)
            if nxt != tid:
                self.turn = nxt
                self.cv.notify_all()
            self._wait(tid)

    def _wait(self, tid):
        while self.turn != tid:
            if not self.cv.wait(timeout=20):
                self.failed = Deadlock(f"thread {tid} waited 20 s for its turn")
                raise self.failed

    def start(self, tid):
        with self.cv:
            self._wait(tid)

    def finish(self, tid):
        with self.cv:
            self.alive.discard(tid)
            self.turn = self._next_turn(tid)
            self.cv.notify_all()


def run_schedule(make_retort, jobs, plan, recorder=None):
    """returns (results per thread, lines executed per thread)"""
    retort = make_retort()
    sched = Sched(len(jobs), plan)
    results = [None] * len(jobs)
    if recorder is not None:
        recorder.attach(sched)

    def tracer_for(tid):
        def local(frame, event, arg):
            if event == "line":
                sched.point(tid)
            return local

        def tracer(frame, event, arg):
            fn = frame.f_code.co_filename
            if event == "call" and "adaptix/_internal/" in fn and fn.endswith(ANCHOR):
                if frame.f_code.co_name == "generate_idx":
                    return None          # the body of ConcurrentCounter.generate_idx runs under its lock: one atomic step
                return local
            return None
        return tracer

    def body(tid, job):
        if recorder is not None:
            recorder.tid.value = tid
        sched.start(tid)
        sys.settrace(tracer_for(tid))
        try:
            results[tid] = ("ok", repr(job(retort)))
        except Deadlock:
            results[tid] = ("deadlock", "")
        except BaseException as e:  # noqa: BLE001
            results[tid] = ("error", f"{type(e).__name__}: {str(e)[:120]}")
        finally:
            sys.settrace(None)
            sched.finish(tid)
    threads = [threading.Thread(target=body, args=(i, j), daemon=True) for i, j in enumerate(jobs)]
    for t in threads:
        t.start()
    for t in threads:
        t.join(timeout=60)
        if t.is_alive():
            return [("deadlock", "")] * len(jobs), sched.steps, retort
    return results, sched.steps, retort


def run(rep, tier, seed):
    proof = lib.proof_stage(rep, PID, extra_trusted=[
        "interleavings are explored at the granularity of Python lines of the files that touch shared state; CPython's own "
        "scheduler, release points inside C code and free-threaded memory effects are outside the model and the exploration",
        "'only accesses to shared state need be interleaving points' (mediator, request buses and the stub table are "
        "created per top-level request) is established by the reviewed text in Proofs/ConcFactsAudit.v, not by a theorem"])
    r = random.Random(seed)
    stats = {"scenarios": 0, "schedules": 0, "single_preemption": 0, "double_preemption": 0, "three_threads": 0,
             "lines_per_thread": {}, "trace_events": 0}
    samples = []
    for name, mk, jobs in scenarios():
        stats["scenarios"] += 1
        # what a single-threaded run returns (each job on its own fresh retort), and how many lines each job executes alone
        expect, lengths = [], []
        for j in jobs:
            res, steps, _ = run_schedule(mk, [j], [])
            expect.append(res[0])
            lengths.append(steps[0])
        stats["lines_per_thread"][name] = lengths

        def check(plan, kind):
            res, steps, retort = run_schedule(mk, jobs, plan)
            stats["schedules"] += 1
            stats[kind] += 1
            for tid, (got, want) in enumerate(zip(res, expect)):
                if got != want:
                    rep.violation(f"schedule:{name}:{got[0]}", "property-violated",
                                  {"what": f"scenario {name!r}: thread {tid} under the schedule {plan} gives {got}; "
                                           f"single-threaded it gives {want}", "scenario": name, "plan": plan, "thread": tid})
                    return False
            # loaders obtained concurrently stay correct for later calls
            for tid, j in enumerate(jobs):
                try:
                    later = ("ok", repr(j(retort)))
                except BaseException as e:  # noqa: BLE001
                    later = ("error", f"{type(e).__name__}: {str(e)[:120]}")
                if later != expect[tid]:
                    rep.violation(f"later-call:{name}:{later[0]}", "property-violated",
                                  {"what": f"scenario {name!r}: after the schedule {plan}, calling job {tid} again gives {later}; "
                                           f"expected {expect[tid]}", "scenario": name, "plan": plan, "thread": tid})
                    return False
            return True
        ok = True
        step = 1 if tier != "quick" else max(1, max(lengths) // 60)
        for first, second in ((0, 1), (1, 0)):
            for k in range(0, lengths[first] + 1, step):
                ok = check([(first, k), (second, 10 ** 9)], "single_preemption") and ok
                if not ok:
                    break
            if not ok:
                break
        if ok:
            for _ in range(15 if tier == "quick" else 200):
                k1 = r.randint(0, lengths[0])
                m = r.randint(1, max(1, lengths[1]))
                k2 = r.randint(0, lengths[0])
                if not check([(0, k1), (1, m), (0, k2), (1, 10 ** 9)], "double_preemption"):
                    break
        if len(samples) < 3:
            samples.append({"scenario": name, "lines_alone": lengths})
    # three threads, random segments
    name, mk, jobs = scenarios()[1]
    jobs3 = jobs + [lambda r_: r_.load(NODE_DATA, Node)]
    expect3 = [run_schedule(mk, [j], [])[0][0] for j in jobs3]
    for _ in range(10 if tier == "quick" else 150):
        plan = [(r.randrange(3), r.randint(1, 120)) for _ in range(r.randint(2, 8))]
        res, _, _ = run_schedule(mk, jobs3, plan)
        stats["schedules"] += 1
        stats["three_threads"] += 1
        bad = [(i, g, w) for i, (g, w) in enumerate(zip(res, expect3)) if g != w]
        if bad:
            i, g, w = bad[0]
            rep.violation(f"schedule:three:{g[0]}", "property-violated",
                          {"what": f"three threads under {plan}: thread {i} gives {g}, single-threaded {w}", "plan": plan})
            break
    # ---------------------------------------------------------------- trace conformance with the model
    stats["trace_events"] = trace_conformance(rep, r, tier)
    rep.cov.update({
        "evaluations": stats["schedules"],
        "distinct_nontrivial": stats["single_preemption"] + stats["double_preemption"] + stats["three_threads"],
        "rule": "7 scenarios of two jobs on one fresh retort (same recursive model; mutually recursive pair; List[Node] vs Node; "
                "outer model containing Node vs Node; first load and first dump of a plain model; dump vs load of a recursive "
                "model; first use of a retort made by replace()); threads yield at every Python line of searching_retort.py, "
                "builtin_mediator.py, operating_retort.py, request_bus.py, base_retort.py, facade/retort.py, compiler.py; every "
                "single-preemption schedule (A runs k lines, B completes, A completes; every k, both orders; every ~1/60th k in "
                "the quick tier) + 15 / 200 random double-preemption schedules per scenario + 10 / 150 random three-thread "
                "schedules; after each schedule every job is called again on the same retort; recorded traces of the shared "
                "accesses are replayed by the model; non-trivial = a schedule with at least one preemption",
        "samples": samples or [{"note": "none"}],
        "distribution": stats,
    })
    import loadgen as lg
    lg.proof_problems(rep, PID, proof)


# ----------------------------------------------------------------------------------------------------------------------
# trace recording (harness-side patching of the accesses to shared state; nothing in /repo is touched)

class Recorder:
    def __init__(self):
        self.events = []
        self.tid = threading.local()
        self.stubs = {}          # id(FuncWrapper) -> sid
        self.owners = []
        self.clos = {}           # id(object) -> cid of the model closure standing for it
        self.next_cid = 0
        self.consts = {}
        self.fns = {}
        self.keep = []           # keep objects alive so that ids stay unique
        self.sched = None

    def attach(self, sched):
        self.sched = sched

    def t(self):
        return getattr(self.tid, "value", 0)

    def fn_id(self, func):
        k = (getattr(func, "__qualname__", repr(func)), id(getattr(func, "__self__", None)))
        self.keep.append(func)
        return self.fns.setdefault(k, len(self.fns))

    def arg(self, a):
        """the model arguments standing for one Python argument: containers compared element-wise are flattened, so that
        the closures and stubs inside them are visible to the model"""
        from adaptix._internal.retort.operating_retort import FuncWrapper
        from adaptix._internal.utils import AlwaysEqualHashWrapper, MappingHashWrapper, OrderedMappingHashWrapper
        if isinstance(a, FuncWrapper):
            return [f"EStub {self.stubs[id(a)]}"]
        if isinstance(a, AlwaysEqualHashWrapper):
            return ["EConst 0"]                              # all of them are equal to each other
        if isinstance(a, (OrderedMappingHashWrapper, MappingHashWrapper)):
            out = [f"EConst {self.const(('len', len(a.mapping)))}"]
            for k, v in a.mapping.items():
                out += self.arg(k) + self.arg(v)
            return out
        if type(a) is tuple:
            out = [f"EConst {self.const(('tuple', len(a)))}"]
            for x in a:
                out += self.arg(x)
            return out
        if id(a) in self.clos and callable(a):
            return [f"ECloId {self.clos[id(a)]}"]
        try:
            k = ("h", type(a), a)
            hash(k)
        except TypeError:
            k = ("id", id(a))
            self.keep.append(a)
        return [f"EConst {self.const(k)}"]

    def const(self, k):
        return self.consts.setdefault(k, len(self.consts) + 1)

    def new_clo(self, obj, fn, args):
        """a miss: the model allocates the next closure id"""
        cid = self.next_cid
        self.next_cid += 1
        self.keep.append(obj)
        self.clos[id(obj)] = cid
        self.events.append(f"EMiss {self.t()} {fn} {coq_list(args)}")
        return cid


def install(rec):
    from adaptix._internal.morphing.facade.retort import AdornedRetort
    from adaptix._internal.retort.builtin_mediator import BuiltinMediator
    from adaptix._internal.retort.operating_retort import FuncWrapper
    from adaptix._internal.retort.searching_retort import SearchingRetort
    saved = (BuiltinMediator.cached_call, FuncWrapper.__init__, FuncWrapper.set_func, SearchingRetort._facade_provide,
             AdornedRetort.get_loader, AdornedRetort.get_dumper)

    def cached_call(self, func, /, *args, **kwargs):
        # the five statements of BuiltinMediator.cached_call (pinned by C11_cache_is_the_modelled_one), with the two
        # accesses to the shared dict as scheduling points
        key = (func, *args, *kwargs.items())
        fn = rec.fn_id(func)
        eargs = [e for a in args for e in rec.arg(a)] + [e for _, v in kwargs.items() for e in rec.arg(v)]
        if rec.sched:
            rec.sched.point(rec.t())
        if key in self._call_cache:
            result = self._call_cache[key]
            if id(result) in rec.clos and callable(result):
                rec.events.append(f"EHit {rec.t()} {fn} {coq_list(eargs)} {rec.clos[id(result)]}")
            return result
        result = func(*args, **kwargs)
        tracked = callable(result) and not isinstance(result, type)
        if tracked:
            cid = rec.new_clo(result, fn, eargs)
        if rec.sched:
            rec.sched.point(rec.t())
        self._call_cache[key] = result
        if tracked:
            rec.events.append(f"EPut {rec.t()} {fn} {coq_list(eargs)} {cid}")
        return result

    def fw_init(self, key):
        saved[1](self, key)
        sid = len(rec.owners)
        rec.stubs[id(self)] = sid
        rec.keep.append(self)
        rec.owners.append(rec.t())
        rec.events.append(f"ENewStub {rec.t()} {sid}")

    def fw_set(self, func):
        if id(func) not in rec.clos:
            rec.new_clo(func, 900, [])
        rec.events.append(f"EBind {rec.t()} {rec.stubs[id(self)]} {rec.clos[id(func)]}")
        saved[2](self, func)

    def facade_provide(self, request, *, error_message):
        result = saved[3](self, request, error_message=error_message)
        if callable(result) and id(result) not in rec.clos:
            rec.new_clo(result, 901, [])
        rec.events.append(f"EFinish {rec.t()}")
        return result

    def make_get(cache_name, maker_name):
        def get(self, tp):
            cache = getattr(self, cache_name)
            if rec.sched:
                rec.sched.point(rec.t())
            if tp in cache:
                rec.events.append(f"ELcGet {rec.t()}")
                return cache[tp]
            made = getattr(self, maker_name)(tp)
            if rec.sched:
                rec.sched.point(rec.t())
            cache[tp] = made
            if id(made) in rec.clos:
                rec.events.append(f"ELcPut {rec.t()} {rec.clos[id(made)]}")
            return made
        return get
    BuiltinMediator.cached_call = cached_call
    FuncWrapper.__init__ = fw_init
    FuncWrapper.set_func = fw_set
    SearchingRetort._facade_provide = facade_provide
    AdornedRetort.get_loader = make_get("_loader_cache", "_make_loader")

    def restore():
        (BuiltinMediator.cached_call, FuncWrapper.__init__, FuncWrapper.set_func, SearchingRetort._facade_provide,
         AdornedRetort.get_loader, AdornedRetort.get_dumper) = saved
    return restore


def trace_conformance(rep, r, tier):
    """record the shared accesses of real two-thread runs and let the model replay them"""
    from adaptix import DebugTrail, Retort
    cases, meta = [], []
    total = 0
    plans = [[(0, k), (1, 10 ** 9)] for k in (0, 40, 90, 150, 220, 300, 400)] + [[(1, 60), (0, 10 ** 9)], [(0, 120), (1, 80), (0, 10 ** 9)]]
    if tier != "quick":
        plans += [[(0, r.randint(0, 500)), (1, r.randint(1, 300)), (0, 10 ** 9)] for _ in range(40)]
    jobs = [lambda rt: rt.get_loader(Node), lambda rt: rt.get_loader(List[Node])]
    for plan in plans:
        rec = Recorder()
        restore = install(rec)
        try:
            res, steps, _ = run_schedule(lambda: Retort(debug_trail=DebugTrail.DISABLE), jobs, plan, recorder=rec)
        finally:
            restore()
        if any(x[0] != "ok" for x in res):
            continue                      # the explorer above reports failing schedules
        # only one loader cache is modelled: keep the events about the first type requested through it
        evs = rec.events
        total += len(evs)
        owner = "(fun s => nth s " + coq_list([str(o) for o in rec.owners]) + " 0)"
        cases.append((f"({owner}, {coq_list(evs)})", f"{len(evs)}/{len(evs)}"))
        meta.append({"plan": plan, "events": evs})
    hdr = ("From AV Require Import Model.Conc Generated.ConcFacts.\nFrom Coq Require Import String.\n"
           "Definition run_trace (c : (nat -> nat) * list event) : string :=\n"
           "  let n := fst (replay stub_eq_by_identity (fun _ => 0) (fst c) init (snd c)) in\n"
           "  String.append (AV.Model.Harness.show_nat n) (String.append \"/\" (AV.Model.Harness.show_nat (List.length (snd c)))).")
    ev = CoqEval(PID, hdr, "run_trace", shard=3)
    for idx, got in ev.compare(cases):
        n = int(got.split("/")[0]) if "/" in got else 0
        rep.violation("trace-not-a-model-path", "model-disagrees",
                      {"what": f"the recorded accesses to shared state are not a path of the model: event #{n} is refused "
                               f"({meta[idx]['events'][n] if n < len(meta[idx]['events']) else '?'})",
                       "plan": meta[idx]["plan"], "accepted": got, "events_before": meta[idx]["events"][max(0, n - 6): n + 1]})
    for k, err in ev.errors:
        rep.violation("coq-eval-error", "harness-error", {"what": err[-1500:]}, no_input=True)
    return total


def replay(rep, body):
    print("recorded:", body.get("what"))
    if "plan" in body and "scenario" in body:
        sc = {n: (mk, jobs) for n, mk, jobs in scenarios()}[body["scenario"]]
        plan = [tuple(x) for x in body["plan"]]
        expect = [run_schedule(sc[0], [j], [])[0][0] for j in sc[1]]
        res, _, _ = run_schedule(sc[0], sc[1], plan)
        print("results:", res, "expected:", expect)
        if res != expect:
            rep.violation(body["signature"], body["kind"], body)
        else:
            print("does not reproduce")
    else:
        rep.violation(body["signature"], body["kind"], body, no_input=body.get("no_failing_input_found", False))
