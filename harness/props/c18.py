"""C18 - enum and flag representations are bijections on their members.
Model: coq/Model/Enum.v, theorems: coq/Props/C18.v.

Generated Enum / Flag classes (mixed-in str / int enums, aliases, zero member, compound and overlapping multi-bit
members, gaps) x the five representation providers x their option cube.  Direct oracle on the library: creating loader
and dumper succeeds (unless documented otherwise), load(dump(m)) is m for every member and every combination of flags,
and every candidate datum that is not the representation of a member is rejected with a LoadError.  The flag-list
dumper is also compared with the Coq model (chosen member names per value).
"""
import enum
import itertools
import random

import lib
from lib import CoqEval, coq_list, coq_str

PID = "C18"


def enum_classes():
    class Plain(enum.Enum):
        A = 1
        B = "b"
        C = (1, 2)
        D = None

    class WithAlias(enum.Enum):
        ONE = 1
        UNO = 1
        TWO = 2

    class StrMixin(str, enum.Enum):
        X = "x"
        Y = "y_val"

    class IntE(enum.IntEnum):
        ZERO = 0
        ONE = 1
        BIG = 10 ** 20

    class Snake(enum.Enum):
        first_value = 1
        second_value_ = 2
        THIRD = 3

    class BoolVals(enum.Enum):
        T = True
        F = False

    class Unhashable(enum.Enum):
        L = [1]
        M = [2]

    # enums whose VALUES are members of other enums (plain, IntEnum, Flag): the exact-value representation of a member
    # is then itself an enum member
    class Weekday(enum.Enum):
        SAT = 6
        SUN = 7

    class DayOff(enum.Enum):
        FIRST = Weekday.SAT
        SECOND = Weekday.SUN

    class Level(enum.IntEnum):
        LOW = 1
        HIGH = 2

    class OfLevels(enum.Enum):
        A = Level.LOW
        B = Level.HIGH
        C = 3

    class Bits(enum.Flag):
        R = 1
        W = 2

    class OfFlags(enum.Enum):
        RO = Bits.R
        RW = Bits.R | Bits.W
    return [Plain, WithAlias, StrMixin, IntE, Snake, BoolVals, Unhashable, DayOff, OfLevels, OfFlags]


def flag_classes():
    class RWX(enum.Flag):
        R = 1
        W = 2
        X = 4

    class WithZero(enum.Flag):
        NONE = 0
        A = 1
        B = 2

    class Compound(enum.Flag):
        A = 1
        B = 2
        C = 4
        AB = 3
        BC = 6
        ALL = 7

    class Overlap(enum.Flag):      # multi-bit members only, overlapping; bit 2 has no single-bit member
        LOW = 3
        HIGH = 6

    class Gap(enum.Flag):          # skipped bit: excluded for flag_by_exact_value by the documentation
        A = 1
        C = 4

    class IntF(enum.IntFlag):
        P = 1
        Q = 2

    class Alias(enum.Flag):
        A = 1
        ALSO_A = 1
        B = 2

    class Wide(enum.Flag):
        B0 = 1
        B1 = 2
        B2 = 4
        B3 = 8
        B4 = 16
        B5 = 32
        LOWS = 7
    return [RWX, WithZero, Compound, Overlap, Gap, IntF, Alias, Wide]


def candidate_pool():
    return [None, True, False, 0, 1, 2, 3, 7, 8, -1, 10 ** 20, 1.0, 2.0, "", "A", "a", "b", "x", "R", "r", "ONE", "UNO", "one",
            "first_value", "firstValue", "FIRST_VALUE", "T", (1, 2), [1, 2], [1], [], ["A"], ["A", "A"], ["A", "B"], ["a"],
            ["R", "W"], ["R", "R"], ["LOW"], ["AB"], ["ab"], ["NONE"], [["A"]], [{}], {"A": 1}, ("A",), {"A"}, iter(["A"]),
            b"A", b"x", "y_val", "Y", 1 + 0j, object()]


def valid_flag_values(F):
    """every value that is a combination (OR) of members"""
    members = list(F.__members__.values())
    vals = {0}
    for m in members:
        vals |= {v | m.value for v in vals}
    return sorted(vals)


def covered_by_single_bits(F, v):
    singles = [m.value for m in F.__members__.values() if m.value > 0 and m.value & (m.value - 1) == 0]
    acc = 0
    for s in singles:
        if s & v == s:
            acc |= s
    return acc == v


def same_member(a, b):
    return type(a) is type(b) and a == b


def run(rep, tier, seed):
    from adaptix import (
        DebugTrail, NameStyle, ProviderNotFoundError, Retort, enum_by_exact_value, enum_by_name, enum_by_value,
        flag_by_exact_value, flag_by_member_names,
    )
    from adaptix.load_error import LoadError
    proof = lib.proof_stage(rep, PID)
    r = random.Random(seed)
    pool = candidate_pool()
    n = 0
    stats = {"roundtrips": 0, "rejections": 0, "creation": 0}
    samples = []

    def check_provider(label, provider, cls, members, sc, mode, must_create=True, reps_ok=None, value_filter=None):
        """members: list of member objects to dump; returns nothing, reports violations"""
        nonlocal n
        retort = Retort(strict_coercion=sc, debug_trail=getattr(DebugTrail, mode), recipe=[provider] if provider else [])
        stats["creation"] += 1
        try:
            ld, dm = retort.get_loader(cls), retort.get_dumper(cls)
        except ProviderNotFoundError as e:
            if must_create:
                rep.violation(f"creation:{label}:{cls.__name__}", "property-violated",
                              {"what": "creating loader/dumper fails for a class the documentation does not exclude",
                               "provider": label, "class": cls.__name__, "members": {k: repr(v.value) for k, v in cls.__members__.items()},
                               "error": str(e)[:200]})
            return
        except Exception as e:  # noqa: BLE001
            rep.violation(f"creation:{label}:{cls.__name__}:{type(e).__name__}", "property-violated",
                          {"what": f"creating loader/dumper raises {type(e).__name__}", "provider": label, "class": cls.__name__,
                           "members": {k: repr(v.value) for k, v in cls.__members__.items()}, "error": str(e)[:200]})
            return
        if not must_create:
            rep.violation(f"creation-should-fail:{label}:{cls.__name__}", "property-violated",
                          {"what": "loader/dumper created for a class the documentation excludes", "provider": label,
                           "class": cls.__name__})
            return
        reps = []
        for m in members:
            n += 1
            stats["roundtrips"] += 1
            try:
                d = dm(m)
                back = ld(d)
            except Exception as e:  # noqa: BLE001
                rep.violation(f"roundtrip:{label}:{cls.__name__}:{type(e).__name__}", "property-violated",
                              {"what": f"dump / load of a member raises {type(e).__name__}: {str(e)[:120]}", "provider": label,
                               "class": cls.__name__, "member": repr(m), "strict_coercion": sc, "debug_trail": mode})
                continue
            reps.append(d)
            if not same_member(back, m):
                known = value_filter is not None and not value_filter(m)
                rep.violation(f"roundtrip:{label}:{cls.__name__}" + (":uncovered" if known else ""), "property-violated",
                              {"what": f"load(dump(m)) = {back!r} is not m = {m!r} (dumped {d!r})", "provider": label,
                               "class": cls.__name__, "member": repr(m), "members": {k: repr(v.value) for k, v in cls.__members__.items()},
                               "strict_coercion": sc, "debug_trail": mode})
            if len(samples) < 3 and n % 131 == 0:
                samples.append({"provider": label, "class": cls.__name__, "member": repr(m), "dumped": repr(d)})
        # rejection: a candidate is accepted only if it equals (Python ==, as a dict lookup would) a representation
        for c in pool:
            n += 1
            stats["rejections"] += 1
            try:
                got = ld(c() if callable(c) and not isinstance(c, type) and getattr(c, "__name__", "") == "<lambda>" else c)
            except LoadError:
                continue
            except Exception as e:  # noqa: BLE001
                rep.violation(f"reject:{label}:{cls.__name__}:{type(e).__name__}", "property-violated",
                              {"what": f"{type(e).__name__} instead of a LoadError for a non-representation", "provider": label,
                               "class": cls.__name__, "datum": repr(c)[:80], "strict_coercion": sc, "debug_trail": mode})
                continue
            ok = reps_ok(c, got) if reps_ok else any(safe_eq(c, d) for d in reps)
            if not ok:
                rep.violation(f"accepts:{label}:{cls.__name__}", "property-violated",
                              {"what": f"datum {c!r} is accepted as {got!r} although it is not the representation of a member",
                               "provider": label, "class": cls.__name__, "strict_coercion": sc, "debug_trail": mode,
                               "representations": [repr(d) for d in reps][:10]})

    cfgs = [(True, "ALL"), (False, "DISABLE")] if tier == "quick" else [(sc, m) for sc in (True, False) for m in ("DISABLE", "FIRST", "ALL")]
    for sc, mode in cfgs:
        for E in enum_classes():
            members = list(E)                      # canonical members (aliases resolve to them)
            unhash = E.__name__ == "Unhashable"
            check_provider("enum_by_exact_value", enum_by_exact_value(), E, members, sc, mode)
            check_provider("default", None, E, members, sc, mode)
            for style in (None, NameStyle.CAMEL, NameStyle.UPPER_SNAKE):
                check_provider(f"enum_by_name({style.name if style else None})", enum_by_name(E, name_style=style), E, members, sc, mode)
            first = members[0]
            check_provider("enum_by_name(map)", enum_by_name(E, map={first.name: "mapped-first", members[-1]: "mapped-last"}),
                           E, members, sc, mode)
            if E.__name__ in ("IntE", "WithAlias"):
                check_provider("enum_by_value(int)", enum_by_value(E, tp=int), E, members, sc, mode,
                               reps_ok=lambda c, got: True)     # goes through the int loader: its rules are C02's
            if E.__name__ == "StrMixin":
                check_provider("enum_by_value(str)", enum_by_value(E, tp=str), E, members, sc, mode, reps_ok=lambda c, got: True)
        for F in flag_classes():
            vals = valid_flag_values(F)
            if len(vals) > 64 and tier == "quick":
                vals = vals[:40] + r.sample(vals[40:], 24)
            members = [F(v) for v in vals]
            gap = F.__name__ == "Gap"
            mask = 0
            for m_ in F.__members__.values():
                mask |= m_.value
            in_range = lambda c, got, mask=mask: type(c) is int and 0 <= c <= mask and got.value == c  # noqa: E731
            check_provider("flag_by_exact_value", flag_by_exact_value(), F, members, sc, mode, must_create=not gap, reps_ok=in_range)
            check_provider("default", None, F, members, sc, mode, must_create=not gap, reps_ok=in_range)
            for single, dup, comp in itertools.product((False, True), repeat=3):
                label = f"flag_by_member_names(single={single},dup={dup},compound={comp})"
                check_provider(label, flag_by_member_names(F, allow_single_value=single, allow_duplicates=dup, allow_compound=comp),
                               F, members, sc, mode,
                               value_filter=(None if comp else (lambda m, F=F: covered_by_single_bits(F, m.value))),
                               reps_ok=lambda c, got, F=F: flag_list_rep_ok(F, c, got, single, dup, comp, sc))
            check_provider("flag_by_member_names(camel)", flag_by_member_names(F, name_style=NameStyle.CAMEL), F, members, sc, mode,
                           reps_ok=lambda c, got: True)
    # ---- one provider serving two classes: a map key given as a member of one class renames nothing in the other
    import enum as _enum

    class Color(_enum.Enum):
        RED = "r"
        GREEN = "g"

    class Signal(_enum.Enum):
        RED = 1
        R = 2
        GREEN = 3

    class Access(_enum.Flag):
        READ = 1
        WRITE = 2

    class Share(_enum.Flag):
        READ = 1
        R = 2
        WRITE = 4
    for sc, mode in cfgs:
        shared = enum_by_name(Color, Signal, map={Color.RED: "R", "GREEN": "G"})
        check_provider("enum_by_name(shared,map)", shared, Signal, list(Signal), sc, mode)
        check_provider("enum_by_name(shared,map)", shared, Color, list(Color), sc, mode)
        fshared = flag_by_member_names(Access, Share, map={Access.READ: "R"})
        check_provider("flag_by_member_names(shared,map)", fshared, Share, [Share(v) for v in range(8)], sc, mode,
                       reps_ok=lambda c, got: True)
        check_provider("flag_by_member_names(shared,map)", fshared, Access, [Access(v) for v in range(4)], sc, mode,
                       reps_ok=lambda c, got: True)
        rt = Retort(strict_coercion=sc, debug_trail=getattr(DebugTrail, mode), recipe=[shared, fshared])
        n += 4
        for tp, member, want in ((Signal, Signal.RED, "RED"), (Signal, Signal.GREEN, "G"), (Color, Color.RED, "R"),
                                 (Share, Share.READ, ["READ"]), (Access, Access.READ, ["R"])):
            got = rt.dump(member, tp)
            if got != want:
                rep.violation(f"shared-provider-map:{tp.__name__}", "property-violated",
                              {"what": f"one provider for two classes with map={{Color.RED: 'R', 'GREEN': 'G'}} / {{Access.READ: 'R'}}: "
                                       f"dump({member!r}) = {got!r}, expected {want!r} (a member key renames that member only)"})
    # ---- one provider instance serving, in ONE retort, several classes whose members compare equal across classes
    # (data mixins: IntEnum / str+Enum / IntFlag members compare and hash by their value)
    class Prio(_enum.IntEnum):
        LOW = 1
        HIGH = 2

    class Tint(_enum.IntEnum):
        RED = 1
        BLUE = 2

    class SKind(str, _enum.Enum):
        A = "a"
        B = "b"

    class SMode(str, _enum.Enum):
        X = "a"
        Y = "b"

    class FRead(_enum.IntFlag):
        READ = 1
        WRITE = 2

    class FShare(_enum.IntFlag):
        LOOK = 1
        EDIT = 2

    groups = [
        ("enum_by_name", lambda: enum_by_name(Prio, Tint), [Prio, Tint], lambda m: m.name),
        ("enum_by_name(style)", lambda: enum_by_name(SKind, SMode, Prio, Tint, name_style=NameStyle.LOWER), [SKind, SMode, Prio, Tint],
         lambda m: m.name.lower()),
        ("enum_by_name(any)", lambda: enum_by_name(), [Tint, Prio, SMode, SKind], lambda m: m.name),
        ("flag_by_member_names", lambda: flag_by_member_names(FRead, FShare), [FRead, FShare], lambda m: [m.name]),
        ("enum_by_exact_value", lambda: enum_by_exact_value(), [Prio, Tint, SKind, SMode], lambda m: m.value),
        ("enum_by_value", lambda: enum_by_value(Prio, tp=int), [Prio], lambda m: m.value),
    ]
    for sc, mode in cfgs:
        for label, mk, classes, want_rep in groups:
            for order in (classes, classes[::-1]):
                rt = Retort(strict_coercion=sc, debug_trail=getattr(DebugTrail, mode), recipe=[mk()])
                for cls in order:
                    for m in cls:
                        n += 1
                        try:
                            d = rt.dump(m, cls)
                            back = rt.load(d, cls)
                        except Exception as e:  # noqa: BLE001
                            d, back = f"raises {type(e).__name__}", None
                        if not (safe_eq(d, want_rep(m)) and back is m):
                            rep.violation(f"shared-provider-retort:{label}", "property-violated",
                                          {"what": f"one {label} provider serving {[c.__name__ for c in order]} (in this order of first "
                                                   f"use) in one retort: dump({m!r}) = {d!r} (expected {want_rep(m)!r}), loaded back as "
                                                   f"{back!r}", "strict_coercion": sc, "mode": mode})
                            break
    nm = model_part(rep, tier) + by_name_model_part(rep, tier, r)
    rep.cov.update({
        "evaluations": n + nm,
        "distinct_nontrivial": stats["roundtrips"],
        "rule": "7 Enum classes (plain, aliases, str mixin, IntEnum incl. a huge value, snake-case names, bool values, unhashable "
                "values) and 8 Flag classes (plain, zero member, compound members, overlapping multi-bit members, gap, IntFlag, "
                "aliases, 6 bits) x every provider x option cube (name styles, map, single/duplicates/compound); every member and "
                "every OR-combination of flag members (exhaustive, <= 64 values) dumped and loaded back; ~55 candidate data per "
                "loader must be rejected unless they == a representation; non-trivial = one dump/load round trip",
        "samples": samples or [{"note": "no sample slot hit"}],
        "distribution": stats | {"flag_list_model_cases": nm},
    })
    import loadgen as lg
    lg.proof_problems(rep, PID, proof)


def safe_eq(a, b):
    try:
        return bool(a == b)
    except Exception:  # noqa: BLE001
        return False


def flag_list_rep_ok(F, c, got, single, dup, comp, sc=True):
    """is candidate c a legitimate list-of-names representation of the flag value got"""
    if isinstance(c, dict) and not sc:
        c = list(c)                      # without strict coercion a mapping is just an iterable of its keys
    names = {m.name: m for m in F.__members__.values() if comp or (m.value > 0 and m.value & (m.value - 1) == 0)}
    if isinstance(c, str):
        items = [c] if single else None
    elif isinstance(c, (list, tuple, set, frozenset)) or hasattr(c, "__iter__") and not isinstance(c, (dict, bytes)):
        items = list(c) if not hasattr(c, "__next__") else None     # a consumed iterator can not be re-read: accept
        if items is None:
            return True
    else:
        items = None
    if items is None:
        return False
    if not all(isinstance(i, str) and i in names for i in items):
        return False
    if not dup and len(set(items)) != len(items):
        return False
    v = 0
    for i in items:
        v |= names[i].value
    return got.value == v


def model_part(rep, tier):
    """the flag-list dumper against Model/Enum.v: which members are named for each value, both allow_compound settings"""
    from adaptix import Retort, flag_by_member_names
    cases = []
    for F in flag_classes():
        members = [m for m in F.__members__.values()]            # includes aliases, as enum.__members__.values() does
        by_name = {m_name: m for m_name, m in F.__members__.items()}
        mvals = [m.value for m in F.__members__.values()]
        for comp in (True, False):
            dm = Retort(recipe=[flag_by_member_names(F, allow_compound=comp)]).get_dumper(F)
            for v in valid_flag_values(F):
                names = dm(F(v))
                got = ",".join(str(by_name[nm].value) for nm in names)
                cases.append((f"({'true' if comp else 'false'}, {coq_list([str(x) + '%N' for x in mvals])}, {v}%N)", got))
    header = ("From AV Require Import Model.Enum Model.Harness.\nFrom Coq Require Import NArith.\n"
              "Definition run (c : bool * list N * N) : string := match c with (ac, ms, v) => "
              "join \",\" (map show_N (flag_dump ac ms v)) end.\n")
    ce = CoqEval(PID, header, "run", shard=400)
    bad = ce.compare(cases)
    for k, err in ce.errors:
        rep.violation("coq-eval-failed", "correspondence-diff", {"shard": k, "coq_error": err}, no_input=True)
    for idx, got in bad[:4]:
        rep.violation(f"flag-dump-diff:{idx % 7}", "correspondence-diff", {"case": cases[idx][0], "library": cases[idx][1], "model": got})
    return len(cases)


def by_name_model_part(rep, tier, r):
    """enum_by_name against Model/Enum.v: random enums with snake-case member names, a map keyed by members and by names and
    a name_style; for every member the dumped string, and for a pool of strings what the loader returns"""
    import enum as _enum

    from adaptix import NameStyle, Retort, enum_by_name
    from adaptix.load_error import LoadError
    COQ_STYLE = {"LOWER_SNAKE": "LowerSnake", "CAMEL_SNAKE": "CamelSnake", "PASCAL_SNAKE": "PascalSnake", "UPPER_SNAKE": "UpperSnake",
                 "LOWER_KEBAB": "LowerKebab", "CAMEL_KEBAB": "CamelKebab", "PASCAL_KEBAB": "PascalKebab", "UPPER_KEBAB": "UpperKebab",
                 "LOWER": "Lower", "CAMEL": "Camel", "PASCAL": "Pascal", "UPPER": "Upper", "LOWER_DOT": "LowerDot", "CAMEL_DOT": "CamelDot",
                 "PASCAL_DOT": "PascalDot", "UPPER_DOT": "UpperDot"}
    name_pool = ["first_value", "second", "THIRD", "a_b_c", "x1", "user_name", "z", "ab", "with_tail_"]
    str_pool = ["first_value", "firstValue", "FIRST_VALUE", "second", "Second", "x", "y", "z", "ab", "AB", "mapped", "other", "", "userName"]
    cases = []
    for _ in range(60 if tier == "quick" else 600):
        names = r.sample(name_pool, r.randint(1, 4))
        E = _enum.Enum("E", {n: i for i, n in enumerate(names)})
        members = list(E)
        by_member = {m: r.choice(["mapped", "x", "y", str_pool[r.randrange(len(str_pool))]]) for m in members if r.random() < 0.25}
        by_name = {m.name: r.choice(["other", "x", "z", m.name.upper()]) for m in members if r.random() < 0.25}
        style = r.choice([None, None] + list(COQ_STYLE))
        mp = {**by_name, **by_member}
        try:
            rt = Retort(recipe=[enum_by_name(E, name_style=getattr(NameStyle, style) if style else None, map=mp or None)])
            dm, ld = rt.get_dumper(E), rt.get_loader(E)
            dumped = [dm(m) for m in members]
        except Exception as e:  # noqa: BLE001   (a name the style can not convert)
            got = "creation-fails"
        else:
            loads = []
            for s in str_pool + dumped:
                try:
                    loads.append(str(members.index(ld(s))))
                except LoadError:
                    loads.append("-")
            got = "|".join(dumped) + "#" + ",".join(loads)
        cases.append((
            "(" + ("None" if style is None else f"(Some {COQ_STYLE[style]})") + ", "
            + coq_list([f"({members.index(m)}, {coq_str(s)})" for m, s in by_member.items()]) + ", "
            + coq_list([f"({coq_str(n)}, {coq_str(s)})" for n, s in by_name.items()]) + ", "
            + coq_list([coq_str(n) for n in names]) + ", " + coq_list([coq_str(s) for s in str_pool]) + ")", got))
    header = ("From AV Require Import Model.NameStyle Model.Enum Model.Harness.\nFrom Coq Require Import List String.\nImport ListNotations.\n"
              "Local Open Scope string_scope.\n"
              "Definition run (c : option style * list (nat * string) * list (string * string) * list string * list string) : string :=\n"
              "  match c with (st, bm, bn, names, probes) =>\n"
              "    let conv := fun n => match st with Some s => convert n s | None => Some n end in\n"
              "    match name_mapping_from conv bm bn 0 names with\n"
              "    | None => \"creation-fails\"\n"
              "    | Some mp => let dumped := map snd mp in\n"
              "        join \"|\" dumped ++ \"#\" ++ join \",\" (map (fun s => match name_load mp s with Some m => show_nat m | None => \"-\" end) (probes ++ dumped))\n"
              "    end end.\n")
    ce = CoqEval(PID + "n", header, "run", shard=200)
    bad = ce.compare(cases)
    for k, err in ce.errors:
        rep.violation("coq-eval-failed:by-name", "correspondence-diff", {"shard": k, "coq_error": err}, no_input=True)
    for idx, got in bad[:4]:
        rep.violation(f"by-name-diff:{idx % 5}", "correspondence-diff", {"case": cases[idx][0], "library": cases[idx][1], "model": got})
    return len(cases)


def replay(rep, body):
    print("replay: re-run `./check C18`; recorded case:", {k: body.get(k) for k in ("what", "provider", "class", "member", "datum")})
    rep.violation(body["signature"], body["kind"], body, no_input=body.get("no_failing_input_found", False))
