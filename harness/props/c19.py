"""C19 - generated code treats names and keys purely as data.
Model: coq/Model/Repr.v, coq/Model/Names.v; theorems: coq/Props/C19.v (repr is one token, the sanitiser yields an
identifier, mangling terminates, prefixed variable names never collide - tables regenerated from the generator sources -,
every interpolation site of the generators is a reviewed one and none is raw).

Correspondence: Python's repr / the lexer model / the sanitiser model against the interpreter and BuiltinNameSanitizer on
hostile strings.  Direct oracle on the library: for models whose field ids range over a dictionary of hostile
identifiers, mapped keys over hostile strings, model / converter / stub / linked-function names over hostile text and
stub defaults over objects with hostile reprs, generation must succeed, the result must behave as the plain field-wise
specification says, and a canary reachable from every hostile fragment must never be called.
"""
import builtins
import enum
import itertools
import keyword
import random
import re
from dataclasses import dataclass, field, fields, make_dataclass
from typing import Any, TypedDict

import lib
from lib import CoqEval, coq_list, coq_str

PID = "C19"

HITS = []


def CANARY(*a):
    HITS.append(a)
    return 0


builtins.CANARY = CANARY          # reachable from any generated module

FIELD_NAME_SETS = [
    ["data", "extra", "constructor", "packed_fields", "sentinel"],
    ["errors", "has_not_found_error", "known_keys", "required_keys", "self"],
    ["has_unexpected_error", "model_identity", "saturator", "result", "placeholder"],
    ["print", "len", "type", "int", "str"], ["isinstance", "getattr", "dict", "list", "set"],
    ["f_a", "a", "r_a", "loader_a", "dfl_a"], ["dumper_a", "accessor_getter_a", "trail_element_a", "access_error_a", "a"],
    ["data_1", "extra_1", "known_keys_1", "result_1", "sieve_1"], ["dfl_1", "placeholder_1", "r_1", "f_1", "x"],
    ["class_", "from_", "None_", "lambda_", "def_"], ["match", "case", "type_", "soft", "_x"],
    ["ñ", "Ω", "ё", "变量", "a٣"], ["e", "value", "key", "idx", "getter"], ["exc", "ok", "dumper", "v", "opt_fields"],
    ["append_trail", "extend_trail", "render_trail_as_note", "CompatExceptionGroup", "CollectionsMapping"],
    ["TypeLoadError", "LoadError", "KeyError", "Exception", "AggregateLoadError"],
    ["g_constructor", "g_sentinel", "g_loader_a", "loader_g_loader_a", "model_loader_M"],
    ["extra_stack", "extra_element", "var_self", "expr", "field"],
    ["coercer", "ctx", "src", "dst", "convert_M_to_M2"], ["_closure_signature", "_stub_function", "_update_wrapper", "constant_0", "func_0"],
    ["accessor_0", "coerce_M_to_M2", "as_is_stub", "w", "q"],
]

HOSTILE_KEYS = ["'", '"', "\\", "{", "}", "${x}", "$expr", "$", "\n", "\r\n", "\t", "\x00", "'+CANARY(4)+'", "\\'", " ", "%s", "{0}",
                "a']; CANARY(5); x['", '"]; CANARY(6); x["', "'''", '"""', "\\N{BULLET}", "\\x41", "#", "é", "日本", "\U0001F600",
                "__import__('builtins').CANARY(7)", "{state.v_data}", "{{}}", "a b", "", "None", "0", "data", "\ud800"]

HOSTILE_NAMES = ["We ird-Name; CANARY(3)", "A²", "A٣", "á", "x(a): pass\nCANARY(1)\ndef y", "my converter", "class", "None", "def",
                 "", "1abc", "a.b[c]", "é", "été", "日本", "'", '"', "\\", "a\nb", "lambda", "__", "_", "a" * 300, "CANARY(8)", "x=CANARY(9)",
                 "coercer", "g_coercer", "_closure_signature", "_update_wrapper", "_stub_function", "data", "ctx", "a", "match", "print",
                 "g_constructor", "constructor", "<lambda>", "f\x00g", " "]
# names that turn into a keyword / builtin / empty string only AFTER the sanitiser has removed characters from them
HOSTILE_NAMES += [w + d for w in ("for", "is", "not", "import", "while", "lambda", "del", "as", "None", "True", "class", "print", "len", "")
                  for d in ("-", "!", " ", "\n", ":", "'", "\u00b2")] + ["im port", "cl-ass", " for", "\tdef", "-", "--"]


class Evil:
    def __init__(self, text):
        self.text = text

    def __repr__(self):
        return self.text

    def __eq__(self, other):
        return isinstance(other, Evil) and other.text == self.text

    def __hash__(self):
        return hash(self.text)


class Color(enum.Enum):
    RED = 1


def guarded(rep, sig, what, fn, expect=None, info=None):
    """run fn; generation / call must succeed, the canary must stay silent, the result must equal `expect`"""
    HITS.clear()
    try:
        got = fn()
    except BaseException as e:  # noqa: BLE001
        rep.violation(f"{sig}:{type(e).__name__}", "property-violated",
                      dict(info or {}, what=f"{what}: {type(e).__name__}: {str(e)[:200]}"))
        HITS.clear()
        return False
    if HITS:
        rep.violation(f"{sig}:executed", "property-violated",
                      dict(info or {}, what=f"{what}: text supplied as a name / key / default was executed (canary called with {HITS[:3]})"))
        HITS.clear()
        return False
    if expect is not None and not expect(got):
        rep.violation(f"{sig}:wrong-result", "property-violated", dict(info or {}, what=f"{what}: unexpected result {got!r}"[:400]))
        return False
    return True


class ReprKey(str):
    """a str subclass whose repr is not the repr of its text: a key is data, what it prints as must not matter"""
    def __new__(cls, text, shown):
        o = super().__new__(cls, text)
        o.shown = shown
        return o

    def __repr__(self):
        return self.shown


def more_names_keys_constants(rep, stats):
    """(a) pairs of linked functions one of which is named like the variable the generator would capture the other under;
    (b) constants given to link_constant: every hostile string, as str and as bytes, must arrive unchanged;
    (c) keys that are instances of str subclasses (a str-mixin enum member, a str whose repr is code);
    (d) fields named like keywords in the kinds that allow it (pydantic create_model, TypedDict)."""
    import enum
    from typing import TypedDict

    from adaptix import P, Retort, name_mapping
    from adaptix.conversion import get_converter, link_constant, link_function

    @dataclass
    class A:
        a: int

    @dataclass
    class B3:
        a: int
        c: int
        d: int

    for x, y in (("f", "g_f"), ("g_f", "f"), ("g_f", "g_g_f"), ("f", "g_g_f"), ("constant_0", "g_constant_0"), ("a", "g_a"), ("A", "g_A"),
                 ("B3", "g_B3"), ("g_B3", "B3")):
        def fx(src):
            return 1
        fx.__name__ = x

        def fy(src):
            return 2
        fy.__name__ = y
        stats["function_names"] += 1
        guarded(rep, f"function-name:capture-pair:{x}+{y}", f"two linked functions named {x!r} and {y!r} in one converter",
                lambda: get_converter(A, B3, recipe=[link_function(fx, P[B3].c), link_function(fy, P[B3].d)])(A(0)),
                lambda o: (o.a, o.c, o.d) == (0, 1, 2), {"names": [x, y]})

    @dataclass
    class Dc:
        a: int
        t: Any

    for ki, key in enumerate(HOSTILE_KEYS + ["line1\nline2", "a\n    b", "q'q'q\n\"\"\"", "\\\n", "tab\there\n"]):
        for val in (key, key.encode("utf-8", "surrogatepass"), (key, key), [key], {key: key}):
            stats["generated_programs"] += 1
            guarded(rep, f"constant:{type(val).__name__}:{ki}", f"link_constant(..., value={val!r})",
                    lambda: get_converter(A, Dc, recipe=[link_constant(P[Dc].t, value=val)])(A(1)),
                    lambda o: o.a == 1 and o.t == val and type(o.t) is type(val), {"constant": repr(val)})

    class SK(str, enum.Enum):
        KA = "key-a"
        KQ = "it's"

    @dataclass
    class K1:
        x: int
        y: int = 3
    exotic_keys = [SK.KA, SK.KQ, ReprKey("plain", "CANARY(11)"), ReprKey("p2", "'] = 0; CANARY(12); x['"), ReprKey("p3", "'other'"),
                   ReprKey("p4", "")]
    for ki, key in enumerate(exotic_keys):
        text = str.__str__(key)
        for variant, recipe in (("flat", [name_mapping(K1, map={"x": key})]), ("nested", [name_mapping(K1, map={"x": ("n", key)})]),
                                ("omit", [name_mapping(K1, map={"y": key}, omit_default=True)])):
            stats["generated_programs"] += 2
            rt = Retort(recipe=recipe)
            info = {"key_text": text, "key_repr": str.__repr__(key) + " printed as " + repr(key)[:60], "key_class": type(key).__name__}
            inp = {"flat": {text: 1}, "nested": {"n": {text: 1}}, "omit": {"x": 1, text: 4}}[variant]
            want = {"flat": (1, 3), "nested": (1, 3), "omit": (1, 4)}[variant]
            guarded(rep, f"key-subclass:{variant}:load:{ki}", f"loading from a mapped key that is a {type(key).__name__} instance with text {text!r}",
                    lambda: rt.load(inp, K1), lambda o: (o.x, o.y) == want, info)
            out = {"flat": {text: 1, "y": 3}, "nested": {"n": {text: 1}, "y": 3}, "omit": {"x": 1, text: 4}}[variant]
            guarded(rep, f"key-subclass:{variant}:dump:{ki}", f"dumping to a mapped key that is a {type(key).__name__} instance with text {text!r}",
                    lambda: rt.dump(K1(*want), K1), lambda d: d == out, info)

    import keyword

    import pydantic
    for kw in ("class", "def", "for", "None", "import", "lambda", "match", "print"):
        stats["field_names"] = stats.get("field_names", 0) + 1
        if kw not in ("None",):
            PM = pydantic.create_model("PM", **{kw: (int, ...), "x": (int, 0)})
            guarded(rep, f"field-name:pydantic:load:{kw}", f"loading a pydantic model with a field named {kw!r}",
                    lambda: Retort().load({kw: 1}, PM), lambda o: getattr(o, kw) == 1 and o.x == 0, {"field": kw})
            guarded(rep, f"field-name:pydantic:dump:{kw}", f"dumping a pydantic model with a field named {kw!r}",
                    lambda: Retort().dump(PM(**{kw: 1}), PM), lambda d: d == {kw: 1, "x": 0}, {"field": kw})
        TD = TypedDict("TD", {kw: int, "x": int})
        guarded(rep, f"field-name:typeddict:load:{kw}", f"loading a TypedDict with a key named {kw!r}",
                lambda: Retort().load({kw: 1, "x": 2}, TD), lambda o: o == {kw: 1, "x": 2}, {"field": kw})
        guarded(rep, f"field-name:typeddict:dump:{kw}", f"dumping a TypedDict with a key named {kw!r}",
                lambda: Retort().dump({kw: 1, "x": 2}, TD), lambda d: d == {kw: 1, "x": 2}, {"field": kw})
        if keyword.iskeyword(kw):
            @dataclass
            class Dk:
                x: int
            Dk2 = TypedDict("Dk2", {kw: int, "x": int})
            guarded(rep, f"field-name:typeddict:convert:{kw}", f"converting into a TypedDict with a key named {kw!r}",
                    lambda: get_converter(Dk, Dk2, recipe=[link_constant(P[Dk2][kw], value=7)])(Dk(2)),
                    lambda d: d == {kw: 7, "x": 2}, {"field": kw})


def capture_correspondence(rep, r, tier):
    """compile_closure_with_globals_capturing against Model/Capture.v: random namespaces over names that are prefixes of one
    another ('f', 'g_f', 'g_g_f', ...), some values with a literal, some without; the (name, global) pairs of the emitted
    assignments and the keys of the globals mapping must be what the model computes; and, directly: globals pairwise
    different, none a namespace name or the closure name, every captured object reachable under its own name"""
    from adaptix._internal.code_tools.compiler import BasicClosureCompiler
    from adaptix._internal.morphing.model.basic_gen import compile_closure_with_globals_capturing
    pool = ["f", "g_f", "g_g_f", "g_g_g_f", "data", "g_data", "x", "g_x", "g_g_x", "loader", "g_loader", "g_", "g_g_"]
    cases = []
    n = 0
    for _ in range(150 if tier == "quick" else 1500):
        ns_names = r.sample(pool, r.randint(1, 7))
        closure = r.choice([p for p in pool if p not in ns_names])
        values = {nm: (object() if r.random() < 0.7 else r.randint(0, 9)) for nm in ns_names}
        captured = [nm for nm in ns_names if not isinstance(values[nm], int)]
        seen = {}

        def hook(data):
            seen["ns"] = dict(data.namespace)
            seen["src"] = data.source
        n += 1
        try:
            fn = compile_closure_with_globals_capturing(
                BasicClosureCompiler(), hook, values, closure_name=closure,
                closure_code=f"def {closure}():\n    return ({', '.join(ns_names)},)", file_name="verif_capture")
            got_values = fn()
        except Exception as e:  # noqa: BLE001
            rep.violation(f"capture:{type(e).__name__}", "property-violated",
                          {"what": f"compile_closure_with_globals_capturing raises {type(e).__name__}: {str(e)[:120]}",
                           "namespace": ns_names, "closure": closure, "captured": captured})
            continue
        pairs = []
        for line in seen["src"].splitlines():
            m = re.fullmatch(r"(\w+) = (g_\w*)", line.strip())
            if m and m.group(1) in captured:
                pairs.append((m.group(1), m.group(2)))
        globals_ = [g for _, g in pairs]
        direct_ok = (len(set(globals_)) == len(globals_) and not (set(globals_) & set(ns_names)) and closure not in globals_
                     and all(a is values[nm] or a == values[nm] for a, nm in zip(got_values, ns_names))
                     and set(seen["ns"]) == set(globals_))
        if not direct_ok:
            rep.violation("capture:collision", "property-violated",
                          {"what": "captured objects do not all arrive under their own names (two globals coincide, or a global "
                                   "shadows a namespace / closure name)", "namespace": ns_names, "closure": closure,
                           "captured": captured, "assignments": pairs})
        cases.append((f"({coq_list([coq_str(x) for x in ns_names])}, {coq_str(closure)}, {coq_list([coq_str(x) for x in captured])})",
                      ";".join(f"{a}={b}" for a, b in pairs)))
    header = ("From AV Require Import Model.Capture Model.Harness.\nFrom Coq Require Import List String.\nImport ListNotations.\n"
              "Local Open Scope string_scope.\n"
              "Definition run (c : list string * string * list string) : string :=\n"
              "  match c with (ns, cl, cap) => join \";\" (map (fun p => fst p ++ \"=\" ++ snd p) (capture true ns cl cap)) end.\n")
    ce = CoqEval(PID + "cap", header, "run", shard=300)
    bad = ce.compare(cases)
    for k, err in ce.errors:
        rep.violation("coq-eval-failed:capture", "correspondence-diff", {"shard": k, "coq_error": err}, no_input=True)
    for idx, got in bad[:3]:
        rep.violation(f"capture-diff:{idx % 3}", "correspondence-diff", {"case": cases[idx][0], "library": cases[idx][1], "model": got})
    return n


def run(rep, tier, seed):
    from adaptix import DebugTrail, Retort, name_mapping
    from adaptix._internal.code_tools.name_sanitizer import BuiltinNameSanitizer
    from adaptix.conversion import coercer, get_converter, impl_converter, link_function
    from adaptix.load_error import LoadError
    proof = lib.proof_stage(rep, PID, extra_trusted=[
        "compile / exec and ast.unparse are the interpreter's; the theorems are about the text handed to them; the lexer model "
        "is compared with the interpreter (eval of repr) on the same strings",
        "the classification of each interpolation site (Proofs/InterpSitesAudit.v) is a review recorded in Coq; the list of "
        "sites it must cover is regenerated from /repo on every run"])
    r = random.Random(seed)
    stats = {"repr_cases": 0, "lexer_cases": 0, "sanitize_cases": 0, "field_sets": 0, "keys": 0, "model_names": 0,
             "converter_names": 0, "stub_defaults": 0, "function_names": 0, "typed_dict": 0, "generated_programs": 0}
    samples = []
    # ---------------------------------------------------------------- strings: repr / lexer / sanitiser against the models
    pool = [39, 34, 92, 10, 13, 9, 0, 7, 27, 127, 128, 160, 173, 255, 123, 125, 36, 37, 97, 98, 32, 35, 0x2028, 0x2029, 0x3b1, 0x4e2d,
            0xd800, 0xdfff, 0xfffe, 0x1f600, 0x10ffff, 0x85, 0x301, 0x378, 0xe000]
    strings = [[ord(c) for c in k] for k in HOSTILE_KEYS + HOSTILE_NAMES]
    for _ in range(250 if tier == "quick" else 3000):
        n = r.choice([0, 1, 1, 2, 3, 5, 8])
        strings.append([r.choice(pool) if r.random() < 0.8 else r.randint(0, 0x10ffff) for _ in range(n)])
    rcases, lcases, scases = [], [], []
    san = BuiltinNameSanitizer()
    for cps in strings:
        s = "".join(map(chr, cps))
        rp = repr(s)
        printable = sorted({c for c in cps if c >= 128 and chr(c).isprintable()})
        want = ".".join(str(ord(c)) for c in rp)
        rcases.append((f"({coq_list([f'{c}%N' for c in printable])}, {coq_list([f'{c}%N' for c in cps])})", want))
        stats["repr_cases"] += 1
        # the interpreter reads the text back as the very same string (validates the reading direction)
        try:
            back = eval(rp, {"__builtins__": {}})  # noqa: S307
        except Exception as e:  # noqa: BLE001
            back = e
        if back != s:
            rep.violation("python-repr-eval", "harness-error", {"what": f"eval(repr(s)) != s for {cps}: {back!r}"})
        rest = [r.choice([39, 34, 92, 41, 93, 10, 97]) for _ in range(r.choice([0, 1, 3]))]
        lcases.append((f"{coq_list([f'{ord(c)}%N' for c in rp] + [f'{c}%N' for c in rest])}",
                       ".".join(map(str, cps)) + "|" + ".".join(map(str, rest))))
        stats["lexer_cases"] += 1
        scases.append((coq_list([f"{c}%N" for c in cps]), ".".join(str(ord(c)) for c in san.sanitize(s))))
        stats["sanitize_cases"] += 1
    hdr = "From Coq Require Import NArith Bool.\nFrom AV Require Import Model.Repr Model.Names Model.CtorShow."
    for tag, run_, cases in (
        ("repr", "(fun c => show_codes (repr (fun x => existsb (N.eqb x) (fst c)) (snd c)))", rcases),
        ("lexer", "(fun c => match lex_string c with Some (s, rest) => String.append (show_codes s) (String.append \"|\"%string (show_codes rest)) "
                  "| None => \"lexer-error\"%string end)", lcases),
        ("sanitize", "(fun c => show_codes (sanitize c))", scases),
    ):
        ev = CoqEval(PID + tag, hdr, run_, shard=300)
        for idx, got in ev.compare(cases):
            rep.violation(f"{tag}-model", "model-disagrees",
                          {"what": f"{tag}: implementation and model differ", "string_code_points": strings[idx],
                           "implementation": cases[idx][1], "model": got})
        for k, err in ev.errors:
            rep.violation(f"coq-eval-error:{tag}", "harness-error", {"what": err[-1500:]}, no_input=True)
    # direct: the sanitised name with a prefix compiles as a function name
    for cps in strings:
        s = "".join(map(chr, cps))
        nm = "model_loader_" + san.sanitize(s)
        if not nm.isidentifier() or keyword.iskeyword(nm):
            rep.violation("sanitize:not-identifier", "property-violated",
                          {"what": f"sanitize({s!r}) = {san.sanitize(s)!r} does not give an identifier behind a prefix",
                           "string_code_points": cps})
    # ---------------------------------------------------------------- hostile field names
    modes = [DebugTrail.ALL, DebugTrail.FIRST, DebugTrail.DISABLE]
    for si, names in enumerate(FIELD_NAME_SETS):
        stats["field_sets"] += 1
        M = make_dataclass("M", [(n, int, field(default=7)) for n in names])
        M2 = make_dataclass("M2", [(n, int, field(default=7)) for n in names])
        R_ = make_dataclass("R_", [(n, int) for n in names])                 # required variant: other code paths
        for mode in (modes if tier != "quick" else [modes[si % 3]]):
            rt = Retort(debug_trail=mode, strict_coercion=False)
            keys = {n: (n[:-1] if n.endswith("_") and n != "_" else n) for n in names}      # documented trimming
            data = {keys[n]: i for i, n in enumerate(names)}
            info = {"field_names": names, "debug_trail": mode.name}
            private = [n for n in names if n.startswith("_")]
            stats["generated_programs"] += 5
            guarded(rep, f"fields:load:{si}", f"loading a model with fields {names}", lambda: rt.load(data, M),
                    lambda o: all(getattr(o, n) == i for i, n in enumerate(names)), info)
            guarded(rep, f"fields:load-required:{si}", f"loading a model with required fields {names}", lambda: rt.load(data, R_),
                    lambda o: all(getattr(o, n) == i for i, n in enumerate(names)), info)
            guarded(rep, f"fields:dump:{si}", f"dumping a model with fields {names}", lambda: rt.dump(M(*range(len(names))), M),
                    lambda d: d == {keys[n]: i for i, n in enumerate(names) if n not in private}, info)
            guarded(rep, f"fields:convert:{si}", f"converting a model with fields {names}", lambda: get_converter(M, M2)(M(*range(len(names)))),
                    lambda o: all(getattr(o, n) == i for i, n in enumerate(names)), info)
            # error path: trails mention the key as data
            def bad():
                try:
                    rt.load({**data, keys[names[0]]: "not-int"}, R_)
                except LoadError:
                    return True
                return False
            guarded(rep, f"fields:load-error:{si}", f"rejecting bad data for fields {names}", bad, lambda ok: ok, info)
    # ---------------------------------------------------------------- hostile keys
    @dataclass
    class K:
        a: int
        b: int
        c: int = 3

    for ki, key in enumerate(HOSTILE_KEYS):
        stats["keys"] += 1
        for mode in (modes if tier != "quick" else [modes[ki % 3]]):
            info = {"key": key, "key_code_points": [ord(c) for c in key], "debug_trail": mode.name}
            for variant, recipe, inp, out in (
                ("flat", [name_mapping(K, map={"a": key})], {key: 1, "b": 2}, {key: 1, "b": 2, "c": 3}),
                ("nested", [name_mapping(K, map={"a": (key, key), "b": ("n", key, 1)})],
                 {key: {key: 1}, "n": {key: [None, 2]}, "c": 5}, {key: {key: 1}, "n": {key: [None, 2]}, "c": 5}),
                ("omit-default", [name_mapping(K, map={"c": key}, omit_default=True)], {"a": 1, "b": 2}, {"a": 1, "b": 2}),
                ("extra", [name_mapping(K, extra_in="b", extra_out="b")], None, None),
            ):
                if key in ("b", "n", "c", "a") and variant != "flat":
                    continue
                stats["generated_programs"] += 2
                rt = Retort(debug_trail=mode, recipe=recipe)
                if variant == "extra":
                    @dataclass
                    class X:
                        a: int
                        b: Any
                    rt = Retort(debug_trail=mode, recipe=[name_mapping(X, extra_in="b", extra_out="b")])
                    guarded(rep, f"key:extra:load:{ki}", f"collecting the extra key {key!r}", lambda: rt.load({"a": 1, key: 9}, X),
                            lambda o: o.a == 1 and o.b == {key: 9}, info)
                    guarded(rep, f"key:extra:dump:{ki}", f"unpacking the extra key {key!r}", lambda: rt.dump(X(1, {key: 9}), X),
                            lambda d: d == {"a": 1, key: 9}, info)
                    guarded(rep, f"key:forbid:{ki}", f"forbidding the extra key {key!r}",
                            lambda: forbid_reports(Retort(debug_trail=mode, recipe=[name_mapping(K, extra_in=__import__('adaptix').ExtraForbid())]),
                                                   K, {"a": 1, "b": 2, key: 0}, key),
                            lambda ok: ok, info)
                    continue
                want_c = 5 if variant == "nested" else 3
                guarded(rep, f"key:{variant}:load:{ki}", f"loading from the mapped key {key!r} ({variant})", lambda: rt.load(inp, K),
                        lambda o: (o.a, o.b, o.c) == (1, 2, want_c), info)
                guarded(rep, f"key:{variant}:dump:{ki}", f"dumping to the mapped key {key!r} ({variant})", lambda: rt.dump(K(1, 2, want_c), K),
                        lambda d: d == out, info)
                # a missing / ill-typed value under the hostile key must be reported with the key as data
                def missing():
                    try:
                        rt.load({"b": 2} if variant == "flat" else {}, K)
                    except LoadError:
                        return True
                    return False
                if variant != "omit-default":
                    guarded(rep, f"key:{variant}:missing:{ki}", f"reporting the missing key {key!r} ({variant})", missing, lambda ok: ok, info)
        if len(samples) < 3 and ki % 11 == 3:
            samples.append({"key": key})
    # ---------------------------------------------------------------- hostile model / function names
    @dataclass
    class A:
        a: int

    @dataclass
    class B:
        a: int

    for ni, nm in enumerate(HOSTILE_NAMES):
        stats["model_names"] += 1
        info = {"name": nm, "name_code_points": [ord(c) for c in nm]}
        try:
            W = make_dataclass("Wtmp", [("a", int)])
            W.__name__ = nm
            W.__qualname__ = nm
        except Exception:  # noqa: BLE001
            continue
        stats["generated_programs"] += 4
        guarded(rep, f"model-name:load:{ni}", f"loading a model whose class is named {nm!r}", lambda: Retort().load({"a": 1}, W), lambda o: o.a == 1, info)
        guarded(rep, f"model-name:dump:{ni}", f"dumping a model whose class is named {nm!r}", lambda: Retort().dump(W(1), W), lambda d: d == {"a": 1}, info)
        guarded(rep, f"model-name:convert:{ni}", f"converting a model whose class is named {nm!r}", lambda: get_converter(W, B)(W(1)), lambda o: o == B(1), info)
        stats["converter_names"] += 1
        guarded(rep, f"converter-name:{ni}", f"get_converter(..., name={nm!r})", lambda: named_converter(get_converter, A, B, nm),
                lambda t: t == (B(1), nm), info)
        # stub function with that __name__
        def stub(a: A) -> B:
            ...
        stub.__name__ = nm
        stub.__qualname__ = nm
        guarded(rep, f"stub-name:{ni}", f"impl_converter on a stub named {nm!r}", lambda: named_stub(impl_converter, stub),
                lambda t: t == (B(1), nm), info)
        # a linked function / coercer with that __name__
        stats["function_names"] += 1
        def fn(x):
            return x + 100
        fn.__name__ = nm
        guarded(rep, f"function-name:coercer:{ni}", f"coercer(int, int, f) with f.__name__ = {nm!r}",
                lambda: get_converter(A, B, recipe=[coercer(int, int, fn)])(A(1)), lambda o: o == B(101), info)
        def lf(a):
            return a.a + 100
        lf.__name__ = nm
        guarded(rep, f"function-name:link:{ni}", f"link_function(f, ...) with f.__name__ = {nm!r}",
                lambda: get_converter(A, B, recipe=[link_function(lf, "a")])(A(1)), lambda o: o == B(101), info)
    # names that coincide with the generated function itself
    for nm in ("coerce_A_to_B", "convert_A_to_B", "model_loader_A"):
        def lf2(a):
            return a.a + 100
        lf2.__name__ = nm
        guarded(rep, f"function-name:generated:{nm}", f"link_function(f, ...) with f.__name__ = {nm!r}",
                lambda: get_converter(A, B, recipe=[link_function(lf2, "a")])(A(1)), lambda o: o == B(101), {"name": nm})
    # names that coincide with the numbered identifiers the converter generator hands out itself (prefix_N): the prefixes
    # are read from the generator's source on every run
    import decimal
    import functools
    import re as _re
    from dataclasses import make_dataclass as _mk

    from adaptix import P as _P
    from adaptix.conversion import link_constant
    gsrc = (lib.SRC / "conversion" / "broaching" / "code_generator.py").read_text()
    prefixes = sorted(set(_re.findall(r'register_next_id\(\s*"(\w+)"', gsrc)))
    if not prefixes:
        rep.violation("generator-prefixes-not-found", "translator-failed",
                      {"what": "no register_next_id(\"prefix\", ...) call found in conversion/broaching/code_generator.py"}, no_input=True)
    SrcN = _mk("SrcN", [("a", int), ("b", int)])
    n_numbered = 0
    for pfx in prefixes:
        for num in (0, 1, 2):
            nm = f"{pfx}_{num}"
            for order in (("f", "c", "g", "h"), ("c", "f", "g", "h"), ("g", "c", "h", "f"), ("h", "g", "f", "c")):
                types_ = {"f": int, "c": decimal.Decimal, "g": int, "h": decimal.Decimal}
                DstN = _mk("DstN", [(k, types_[k]) for k in order])

                def named(src):
                    return src.a + 100
                named.__name__ = nm

                def anon(src):
                    return src.b + 7
                anon.__name__ = f"{pfx}_{(num + 1) % 3}"     # a second function that also looks like a generated name
                n_numbered += 1
                guarded(rep, f"function-name:numbered:{pfx}", f"link_function(f, ...) with f.__name__ = {nm!r} next to generated {pfx}_N names",
                        lambda: get_converter(SrcN, DstN, recipe=[
                            link_function(named, _P[DstN].f), link_constant(_P[DstN].c, value=decimal.Decimal(1)),
                            link_function(anon, _P[DstN].g), link_constant(_P[DstN].h, value=decimal.Decimal(2))])(SrcN(1, 2)),
                        lambda o: (o.f, o.c, o.g, o.h) == (101, decimal.Decimal(1), 9, decimal.Decimal(2)), {"name": nm, "field_order": order})
    more_names_keys_constants(rep, stats)
    stats["capture_cases"] = capture_correspondence(rep, random.Random(seed + 3), tier)
    # ---------------------------------------------------------------- stub defaults and parameter names
    defaults = [Color.RED, object(), Evil("CANARY(2)"), Evil("1)): pass\nCANARY(10)\nif ((1"), "x'\"\n", b"\x00'", 1.5, float("inf"), None, (1,),
                [1], {"a": 1}, Evil(""), Evil("lambda: 0"), 10 ** 30, -1, Ellipsis, int, len]
    for di, dflt in enumerate(defaults):
        stats["stub_defaults"] += 1

        def stub2(a: A, flag: Any = dflt) -> B:
            ...
        info = {"default": repr(dflt)[:80], "default_type": type(dflt).__name__}

        def call():
            f = impl_converter(stub2)
            import inspect
            return f(A(1)), inspect.signature(f).parameters["flag"].default
        guarded(rep, f"stub-default:{type(dflt).__name__}:{di}", f"impl_converter on a stub whose parameter default is {dflt!r}"[:200], call,
                lambda t: t[0] == B(1) and (t[1] is dflt or t[1] == dflt), info)
    for pn in ("coercer", "data", "ctx", "_closure_signature", "_update_wrapper", "_stub_function", "convert_A_to_B", "g_coercer", "self", "print",
               "default_a", "match", "ñ"):
        ns = {"A": A, "B": B}
        exec(f"def stub3({pn}: A, extra_{pn}: int = 5) -> B: ...", ns)  # noqa: S102  (identifier from our own list)
        guarded(rep, f"param-name:{pn}", f"impl_converter on a stub whose parameters are named {pn!r}",
                lambda: impl_converter(ns["stub3"])(A(1)), lambda o: o == B(1), {"name": pn})
    # ---------------------------------------------------------------- TypedDict keys that are keywords
    for keys_ in (["class", "from"], ["None", "True"], ["lambda", "a"], ["match", "type"]):
        stats["typed_dict"] += 1
        TD = TypedDict("TD", {k: int for k in keys_})
        TD2 = TypedDict("TD2", {k: int for k in keys_})
        val = {k: i for i, k in enumerate(keys_)}
        info = {"keys": keys_}
        stats["generated_programs"] += 3
        guarded(rep, f"typed-dict:load:{keys_[0]}", f"loading a TypedDict with keys {keys_}", lambda: Retort().load(val, TD), lambda o: o == val, info)
        guarded(rep, f"typed-dict:dump:{keys_[0]}", f"dumping a TypedDict with keys {keys_}", lambda: Retort().dump(val, TD), lambda o: o == val, info)
        guarded(rep, f"typed-dict:convert:{keys_[0]}", f"converting a TypedDict with keys {keys_}", lambda: get_converter(TD, TD2)(val), lambda o: o == val, info)
    total = sum(v for k, v in stats.items() if k.endswith("_cases")) + stats["generated_programs"]
    rep.cov.update({
        "evaluations": total,
        "distinct_nontrivial": stats["generated_programs"],
        "rule": f"{len(FIELD_NAME_SETS)} sets of 5 field ids (every variable the generators use themselves, builtins, keywords "
                "via trailing underscore, soft keywords, non-ASCII identifiers, names equal to other fields' derived variables, to "
                f"the g_ capture names and to the generated function) x load / load-required / dump / convert / error path; "
                f"{len(HOSTILE_KEYS)} mapped keys (quotes, backslashes, braces, $, newlines, NUL, U+2028, lone surrogate, code "
                "fragments calling a canary) x flat / nested-with-list-index / omit_default / extra collect, unpack, forbid x load, "
                f"dump, missing-key report; {len(HOSTILE_NAMES)} names for the model class, get_converter(name=), the stub "
                "function, coercer and linked functions; 19 stub parameter defaults incl. objects whose repr is code; 13 stub "
                "parameter names; TypedDict keys that are keywords; in the quick tier one debug_trail per case (rotating), in the "
                "thorough tier all three; random strings over a hostile code-point pool for repr / lexer / sanitiser models; "
                "non-trivial = one generated program exercised",
        "samples": samples or [{"note": "none"}],
        "distribution": stats,
    })
    import loadgen as lg
    lg.proof_problems(rep, PID, proof)


def forbid_reports(rt, K, data, key):
    from adaptix.load_error import AggregateLoadError, ExtraFieldsLoadError, LoadError
    try:
        rt.load(data, K)
    except LoadError as e:
        errs = e.exceptions if isinstance(e, AggregateLoadError) else [e]
        return any(isinstance(x, ExtraFieldsLoadError) and set(x.fields) == {key} for x in errs)
    return False


def named_converter(get_converter, A, B, nm):
    f = get_converter(A, B, name=nm)
    return f(A(1)), f.__name__


def named_stub(impl_converter, stub):
    f = impl_converter(stub)
    A = list(stub.__annotations__.values())[0]
    return f(A(1)), f.__name__


def replay(rep, body):
    import sys
    print("recorded:", body.get("what"))
    lib.replay_by_rerun(sys.modules[__name__], rep, body)
