"""C04 - invalid input raises LoadError and nothing else.  Model: coq/Model/Load.v, theorems: coq/Props/C04.v.

Part A: the container / union / literal / basic scalar fragment, hostile data, six configurations, library vs model
        (with a user loader that raises ValueError, to check that only user code can make something else escape).
Part B: every builtin scalar provider (incl. the optional ones of the public API), bare and nested under each
        container, against a hostile pool; direct oracle: the exception must be a LoadError all the way down.
"""
import collections
import collections.abc
import datetime as dt
import decimal
import enum
import fractions
import io
import ipaddress
import pathlib
import random
import re
import typing
import uuid
from dataclasses import dataclass, field
from typing import Any, Dict, FrozenSet, List, Literal, Optional, Set, Tuple, Union

import lib
import loadgen as lg

PID = "C04"


class Color(enum.Enum):
    RED = 1
    BLUE = "b"


class Perm(enum.Flag):
    R = 1
    W = 2
    X = 4


class Num(enum.IntEnum):
    ONE = 1
    TWO = 2


def scalar_types():
    return [int, float, str, bool, decimal.Decimal, fractions.Fraction, complex, bytes, bytearray, io.BytesIO,
            typing.IO[bytes], dt.datetime, dt.date, dt.time, dt.timedelta, uuid.UUID,
            ipaddress.IPv4Address, ipaddress.IPv6Address, ipaddress.IPv4Network, ipaddress.IPv6Network,
            ipaddress.IPv4Interface, ipaddress.IPv6Interface,
            pathlib.PurePath, pathlib.Path, pathlib.PurePosixPath, pathlib.PosixPath, pathlib.PureWindowsPath,
            re.Pattern, type(None), typing.LiteralString, Color, Perm, Num,
            Literal["a", 1, b"x"], Literal[Color.RED, "z"], Literal[0, 1, 2, 3, 4, 5], Literal[b"ab", Color.BLUE, 7]]


def hostile_pool():
    class Obj:
        pass
    return [None, True, False, 0, 1, -1, 2 ** 63, 10 ** 400, -10 ** 400, 10 ** 5000, 1.5, float("nan"), float("inf"), float("-inf"),
            1e308, 1e18, -1e18, 1e-320, "", "a", "1", "1/0", "1e", "1e999", "é", "٣", "\x00", "\ud800", "a" * 5000,
            "a{99999999999999999999}", "(", "12:00", "2020-01-01", "2020-13-45", "2020-01-01T25:00:00", "zz",
            "127.0.0.1", "::1", "1.2.3.4/33", "256.1.1.1", "12345678-1234-5678-1234-567812345678", "YQ==", "YQ=", "YQ==\n",
            "nan", "inf", "Infinity", "1_0", " 1 ", "+1", "1j", "RED", "R", b"", b"\xff", b"a", bytearray(b"a"),
            [], [1], ["R"], [[1]], [{}], {}, {1: 2}, {"a": [1]}, (1,), (), set(), frozenset([1]), {1, "a"},
            Obj(), decimal.Decimal("Infinity"), decimal.Decimal("NaN"), decimal.Decimal("1.5"), decimal.Decimal("1e500"),
            fractions.Fraction(1, 3), complex(1, 2), complex("nan"), dt.date(2020, 1, 1), dt.timedelta(1), uuid.UUID(int=1),
            pathlib.PurePosixPath("a"), Color.RED, Perm.R | Perm.W, iter([1]), range(3), lambda: 1, type, NotImplemented, ...] + \
        subclass_instances() + [dict, list, int, str, tuple, Obj, decimal.Decimal("1e-9999"), decimal.Decimal("1e9999")]


def subclass_instances():
    """instances of proper subclasses of every data type a builtin loader accepts (guards written with isinstance let them
    in, code written for the exact type then meets a look-alike), and some classes that are subclasses in the stdlib itself"""
    import collections

    def sub(base, *args):
        return type("Sub" + base.__name__.capitalize(), (base,), {})(*args)
    return [sub(int, 5), sub(float, 1.5), sub(str, "12"), sub(str, "a"), sub(bytes, b"YQ=="), sub(bytearray, b"a"),
            sub(decimal.Decimal, "1.5"), sub(decimal.Decimal, "NaN"), sub(fractions.Fraction, 1, 3), sub(complex, 1, 2),
            sub(dt.date, 2020, 1, 1), dt.datetime(2020, 1, 1), sub(dt.time, 1, 2), sub(dt.timedelta, 1), sub(uuid.UUID, "12345678-1234-5678-1234-567812345678"),
            sub(list, [1]), sub(tuple, (1, "a")), sub(dict, {"a": 1}), sub(set, {1}), sub(frozenset, {1}),
            collections.OrderedDict(a=1), collections.defaultdict(list), collections.Counter("ab"), collections.deque([1]),
            Num.ONE, Num(2), ipaddress.IPv4Interface("1.2.3.4/8"), pathlib.PosixPath("a")]


def only_load_errors(exc):
    from adaptix.load_error import LoadError
    if not isinstance(exc, LoadError):
        return False
    subs = getattr(exc, "exceptions", None)
    if subs is not None:
        return all(only_load_errors(s) for s in subs)
    return True


def optional_provider_retorts(sc, mode):
    from adaptix import (
        DebugTrail, Retort, date_by_timestamp, datetime_by_format, datetime_by_timestamp, enum_by_exact_value, enum_by_name,
        enum_by_value, flag_by_exact_value, flag_by_member_names,
    )
    dm = getattr(DebugTrail, mode)
    return [
        ("datetime_by_timestamp", Retort(strict_coercion=sc, debug_trail=dm, recipe=[datetime_by_timestamp()]), [dt.datetime]),
        ("date_by_timestamp", Retort(strict_coercion=sc, debug_trail=dm, recipe=[date_by_timestamp()]), [dt.date]),
        ("datetime_by_format", Retort(strict_coercion=sc, debug_trail=dm, recipe=[datetime_by_format(fmt="%Y-%m-%d")]), [dt.datetime]),
        ("enum_by_name", Retort(strict_coercion=sc, debug_trail=dm, recipe=[enum_by_name(Color)]), [Color]),
        ("enum_by_value", Retort(strict_coercion=sc, debug_trail=dm, recipe=[enum_by_value(Num, tp=int)]), [Num]),
        ("enum_by_exact_value", Retort(strict_coercion=sc, debug_trail=dm, recipe=[enum_by_exact_value(Color)]), [Color]),
        ("flag_by_exact_value", Retort(strict_coercion=sc, debug_trail=dm, recipe=[flag_by_exact_value(Perm)]), [Perm]),
        ("flag_by_member_names", Retort(strict_coercion=sc, debug_trail=dm, recipe=[flag_by_member_names(Perm)]), [Perm]),
        ("flag_by_member_names(nodup)", Retort(strict_coercion=sc, debug_trail=dm,
                                               recipe=[flag_by_member_names(Perm, allow_duplicates=False)]), [Perm]),
        ("flag_by_member_names(single)", Retort(strict_coercion=sc, debug_trail=dm,
                                                recipe=[flag_by_member_names(Perm, allow_single_value=True, allow_compound=False)]), [Perm]),
    ]


def wrap_types(tp):
    @dataclass
    class M:
        f: tp   # type: ignore[valid-type]
    M.__annotations__["f"] = tp
    return [("bare", tp, lambda d: d), ("List", List[tp], lambda d: [d]), ("Optional", Optional[tp], lambda d: d),
            ("Dict", Dict[str, tp], lambda d: {"k": d}), ("Tuple", Tuple[tp, int], lambda d: (d, 1)),
            ("Union", Union[tp, None, Tuple[int, int, int]], lambda d: d), ("Model", M, lambda d: {"f": d})]


def tname(tp):
    return getattr(tp, "__name__", None) or str(tp)


def part_b(rep, tier):
    from adaptix import DebugTrail, Retort
    pool = hostile_pool()
    n = 0
    leaks = {}
    for sc in (True, False):
        for mode in ("DISABLE", "FIRST", "ALL"):
            base = Retort(strict_coercion=sc, debug_trail=getattr(DebugTrail, mode))
            jobs = [("builtin", base, scalar_types())] + optional_provider_retorts(sc, mode)
            for pname, retort, types in jobs:
                for tp in types:
                    wraps = wrap_types(tp)
                    if tier == "quick" and pname == "builtin" and mode != "ALL":
                        wraps = wraps[:3]
                    for wname, wtp, build in wraps:
                        try:
                            ld = retort.get_loader(wtp)
                        except Exception as e:  # noqa: BLE001  - creating the loader is not C04's subject
                            continue
                        for d in pool:
                            n += 1
                            try:
                                ld(build(d))
                            except BaseException as e:  # noqa: BLE001
                                if not only_load_errors(e):
                                    leaf = e
                                    while getattr(leaf, "exceptions", None):
                                        bad = [s for s in leaf.exceptions if not only_load_errors(s)]
                                        leaf = bad[0]
                                    key = (pname, tname(tp), type(leaf).__name__, cause_of(leaf))
                                    leaks.setdefault(key, []).append((wname, sc, mode, safe_repr(d)))
    for (pname, tn, exn, cause), where in sorted(leaks.items()):
        rep.violation(f"escape:{pname}:{tn}:{exn}" + ("" if cause == "other" else ":" + cause), "property-violated",
                      {"what": f"{exn} escapes from the {pname} loader of {tn} instead of a LoadError",
                       "provider": pname, "type": tn, "exception": exn,
                       "first_cases": [{"nesting": w, "strict_coercion": s, "debug_trail": m, "datum": d} for w, s, m, d in where[:4]],
                       "n_cases": len(where)})
    return n, leaks


def safe_repr(d, n=80):
    try:
        return repr(d)[:n]
    except BaseException as e:  # noqa: BLE001  - e.g. ints beyond the interpreter's int -> str digit limit
        return f"<{type(d).__name__}: repr raises {type(e).__name__}>"


def cause_of(exc):
    m = str(exc) if not isinstance(exc, str) else exc
    if "unhashable type" in m:
        return "unhashable-element"
    if "keywords must be strings" in m or "got multiple values for" in m:
        return "extra-kwargs-key"
    if "Exceeds the limit" in m and "integer string conversion" in m:
        return "int-str-digit-limit"
    return "other"


def has_class_object(d):
    if isinstance(d, type):
        return True
    if isinstance(d, dict):
        return any(has_class_object(k) or has_class_object(v) for k, v in d.items())
    if isinstance(d, (list, tuple)):
        return any(has_class_object(x) for x in d)
    return False


def structural_pool():
    """data whose *shape* is hostile: keys that are not strings / not hashable-friendly / not comparable with each other,
    unhashable elements, ints beyond the int -> str digit limit as values and as keys (they end up in trails)"""
    big = 10 ** 5000
    base = [None, 1, "s", b"b", [], (), {}, {3: "x", "a": 1}, {"a": 1, 3: "x"}, {"a": 1, None: 2}, {"a": 1, (1, 2): 2},
            {"a": 1, "b": "y", "z": 1}, {"a": 1, "b": "y", 3: 1, None: 4}, {"a": 1, "zz": 1, 3: 2}, [1], [1, "x"], [1, "x", {}],
            {"a": [1]}, {"a": {}}, {"d": {"a": 1, 3: 4}, "l": [{"a": 1, 3: 2}]}, {"d": None}, {"d": {"a": 1}, "l": None},
            {"d": {"a": 1}, "l": [None, 3]}, collections.OrderedDict(a=1), collections.ChainMap({"a": 1}),
            collections.defaultdict(int, a=1), big, {big: 1, "a": 1}, {"a": big}, {"a": 1, big: "x"}, {"a": "bad", big: "x"},
            {"a": 1.5}, {"a": 1, "rest": 3}, {"a": 1, "rest": {3: 4}}, {"a": 1, frozenset(): 1}, {"a": 1, 1.5: 2},
            {"a": 1, b"k": 2}, {"a": 1, "self": 3}, {"a": 1, "cls": 3}, {"a": 1, "a_": 2}, {"a": 1, "": 2}, {"a": 1, "not an id": 2},
            [[1]], [[1], [2]], [{}], [{1: 2}], [set()], [1, [2]], {(1,): 1}, {"k": [1]}, {"k": {}}, {big: "bad"}, [big], [big, "bad"],
            {"k": big}, (big, big), {1: "bad", "x": "bad"}, {None: "bad", "x": 1},
            dict, list, set, tuple, str, collections.OrderedDict, collections.abc.Mapping, {"a": dict}, [list], {"d": dict, "l": list}]
    return base + [{"p": x} for x in base[:16]] + [{"p": {"q": 1, 3: 4}}, {"p": {"q": 1}, 3: 4}, {"p": [1]}, {"p": {"q": 1, 0: 2}},
                                                   {"p": {"q": 1, None: 2, "u": 3}}]


def structural_jobs():
    from adaptix import ExtraForbid, ExtraKwargs, ExtraSkip, name_mapping

    class K:
        def __init__(self, a: int, **kw):
            self.a, self.kw = a, kw

    @dataclass
    class D:
        a: int
        b: str = "x"
        rest: dict = field(default_factory=dict)

    @dataclass
    class N:
        d: D
        l: List[D] = field(default_factory=list)   # noqa: E741

    @dataclass
    class Lst:
        a: int
        b: str = "x"

    models = (K, D, N, Lst, List[D], Dict[str, D], Optional[D], Union[D, int], Dict[int, D], Dict[Any, Lst])
    plain = (Set[Any], FrozenSet[Any], Set[int], List[Any], Dict[Any, int], Dict[Any, Any], Dict[int, int], Dict[str, Any],
             Tuple[Any, ...], Tuple[Any, Any], typing.Collection[Any], typing.AbstractSet[Any], typing.Mapping[Any, Any],
             typing.Deque[Any], Dict[int, str], List[int], Optional[Set[Any]], Union[Set[Any], int], str, List[str], Dict[str, str])
    return [
        ("plain", [], models + plain),
        ("extra_kwargs", [name_mapping(K, extra_in=ExtraKwargs())], (K, List[K], Dict[str, K])),
        ("extra_forbid", [name_mapping(D, extra_in=ExtraForbid())], models),
        ("extra_skip", [name_mapping(D, extra_in=ExtraSkip())], models),
        ("extra_collect", [name_mapping(D, extra_in="rest")], models),
        ("as_list", [name_mapping(Lst, as_list=True)], (Lst, List[Lst], Dict[Any, Lst])),
        ("nested_map", [name_mapping(D, map={"a": ("p", "q")})], models),
        ("nested_map_forbid", [name_mapping(D, map={"a": ("p", "q")}, extra_in=ExtraForbid())], models),
        ("nested_map_collect", [name_mapping(D, map={"a": ("p", "q")}, extra_in="rest")], models),
    ]


def part_c(rep, tier, only=None):
    """containers and models against structurally hostile data: whatever the shape of the datum, only LoadError"""
    from adaptix import DebugTrail, Retort
    pool = structural_pool()
    n, leaks = 0, {}
    for sc in (True, False):
        for mode in ("DISABLE", "FIRST", "ALL"):
            for cname, recipe, types in structural_jobs():
                retort = Retort(strict_coercion=sc, debug_trail=getattr(DebugTrail, mode), recipe=recipe)
                for tp in types:
                    tn = tname(tp) if not typing.get_args(tp) else str(tp).replace("typing.", "")
                    tn = re.sub(r"props\.c04\.structural_jobs\.<locals>\.|__main__\.", "", tn)
                    if only and (cname, tn) != only:
                        continue
                    try:
                        ld = retort.get_loader(tp)
                    except Exception:  # noqa: BLE001  - creating the loader is not C04's subject
                        continue
                    for i, d in enumerate(pool):
                        n += 1
                        try:
                            ld(d)
                        except BaseException as e:  # noqa: BLE001
                            if not only_load_errors(e):
                                leaf = e
                                while getattr(leaf, "exceptions", None):
                                    leaf = [s for s in leaf.exceptions if not only_load_errors(s)][0]
                                cause = cause_of(leaf)
                                if cause == "other" and has_class_object(d):
                                    cause = "class-object-as-datum"
                                leaks.setdefault((cause, cname, tn, type(leaf).__name__), []).append(
                                    (sc, mode, i, safe_repr(d), safe_repr(leaf, 120)))
    if only is None:
        for (cause, cname, tn, exn), where in sorted(leaks.items()):
            rep.violation(f"escape:structure:{cause}:{cname}:{tn}:{exn}", "property-violated",
                          {"what": f"{exn} escapes from the loader of {tn} ({cname}) instead of a LoadError",
                           "config": cname, "type": tn, "exception": exn,
                           "first_cases": [{"strict_coercion": s, "debug_trail": m, "pool_index": i, "datum": d, "raised": x}
                                           for s, m, i, d, x in where[:4]],
                           "n_cases": len(where)})
    return n, leaks


class RA:
    pass


@dataclass
class RecA:
    bs: List["RecB"]


@dataclass
class RecB:
    a: Optional[RecA]
    n: int = 0


def recursion_across_retorts(rep):
    """mutually recursive models one of which is served by a retort placed in the recipe (bound(RecB, Retort())): data that
    a plain retort loads must load, bad data must raise LoadError - nothing else, at every nesting depth"""
    from adaptix import DebugTrail, Retort, bound
    from adaptix.load_error import LoadError
    good = [{"bs": []}, {"bs": [{"a": None}]}, {"bs": [{"a": {"bs": []}}]}, {"bs": [{"a": {"bs": [{"a": None, "n": 2}]}}, {"a": None}]}]
    bad = [{"bs": [{"a": {"bs": "x"}}]}, {"bs": [{"a": {"bs": [{"a": 5}]}}]}, {"bs": [{"a": {}}]}]
    n = 0
    seen = set()
    for mode in ("DISABLE", "FIRST", "ALL"):
        dm = getattr(DebugTrail, mode)
        for label, rt in (("outer-serves-A", Retort(recipe=[bound(RecB, Retort(debug_trail=dm))], debug_trail=dm)),
                          ("outer-serves-B", Retort(recipe=[bound(RecA, Retort(debug_trail=dm))], debug_trail=dm))):
            for tp, wrap in ((RecA, lambda d: d), (RecB, lambda d: {"a": d})):
                for d in good + bad:
                    n += 1
                    try:
                        rt.load(wrap(d), tp)
                        ok = True
                    except LoadError:
                        ok = False
                    except BaseException as e:  # noqa: BLE001
                        leaf = e
                        while getattr(leaf, "exceptions", None):
                            leaf = leaf.exceptions[0]
                        sig = f"escape:structure:recursion-across-retorts:{type(leaf).__name__}"
                        if sig not in seen:
                            seen.add(sig)
                            rep.violation(sig, "property-violated",
                                          {"what": f"{type(leaf).__name__} ({str(leaf)[:80]}) escapes while loading mutually recursive models one of "
                                                   f"which is served by a retort placed in the recipe ({label})", "mode": mode,
                                           "type": tp.__name__, "datum": repr(wrap(d)), "valid_for_a_plain_retort": d in good})
                        continue
                    if ok != (d in good) and "acc" not in seen:
                        seen.add("acc")
                        rep.violation("recursion-across-retorts:acceptance", "property-violated",
                                      {"what": "a retort with a nested retort for one class of a recursive pair accepts / rejects other data "
                                               "than a plain retort", "datum": repr(wrap(d)), "mode": mode, "accepted": ok})
    return n


def run(rep, tier, seed):
    proof = lib.proof_stage(rep, PID, extra_trusted=[
        "for scalars outside the Coq fragment (Decimal, Fraction, complex, dates, UUID, IP, Path, regex, bytes, enums) the "
        "exception ranges of the standard-library constructors are established by running them on the hostile pool"])
    r = random.Random(seed)
    tg, vg = lg.TyGen(r, allow_user=True), lg.ValGen(r, junk_rate=0.45)
    n_types = 200 if tier == "quick" else 3000
    cases = []
    for _ in range(n_types):
        t = tg.ty(r.choice([1, 2, 2, 3]))
        sc = r.random() < 0.5
        for _ in range(4):
            v = vg.value(t, sc)
            for mi in range(3):
                cases.append((mi, sc, t, v))
    expected, bad = lg.correspond(rep, PID, cases)
    # direct oracle on part A: something other than a LoadError escaped although no user loader raised
    for (mi, sc, t, v), o in zip(cases, expected):
        if o != "X":
            continue
        lg.run_load(lg.retort(sc, lg.MODES[mi]), t, v)
        if lg.BOOM_STATE["raised"] == 0:
            rep.violation(f"escape:fragment:{t[0]}", "property-violated",
                          {"what": "a non-LoadError escapes from builtin loaders", "type": t, "datum": v,
                           "strict_coercion": sc, "mode": lg.MODES[mi]})
    nb, leaks = part_b(rep, tier)
    nc, leaks_c = part_c(rep, tier)
    nc += recursion_across_retorts(rep)
    rep.cov.update({
        "evaluations": len(cases) + nb + nc,
        "distinct_nontrivial": len({repr((c[2], c[3])) for c in cases if c[2][0] not in ("TInt", "TStr", "TBool", "TNone", "TAny")}),
        "rule": "part A: types of depth <= 3 with 45% junk data and a user loader raising ValueError, 3 modes, strict/lax, "
                "library vs model; part B: 37 builtin scalar types and 10 optional scalar providers, bare and nested under "
                "List / Optional / Dict / Tuple / Union / model field, x a hostile pool of ~100 data x 6 configurations, "
                "oracle = every leaf of the raised exception is a LoadError; part C: ~30 container types and 4 model classes under 9 "
                "name_mapping / extra policies x ~80 structurally hostile data (non-string, unhashable, mutually incomparable keys, "
                "unhashable elements, ints beyond the int->str digit limit as values and keys) x 6 configurations; "
                "non-trivial = compound type (part A)",
        "samples": [{"type": cases[i][2], "datum": cases[i][3], "library": expected[i]} for i in (0, 3)],
        "distribution": {"part_a_cases": len(cases), "part_b_loads": nb, "part_b_escape_kinds": len(leaks), "part_c_loads": nc, "part_c_escape_kinds": len(leaks_c),
                         "part_a_other_exception": sum(e == "X" for e in expected),
                         "model_vs_library_mismatches": len(bad)},
    })
    lg.proof_problems(rep, PID, proof)


def replay(rep, body):
    if "config" in body:
        n, leaks = part_c(rep, "quick", only=(body["config"], body["type"]))
        hits = {k: v for k, v in leaks.items() if k[3] == body["exception"]}
        for k, v in hits.items():
            print("escapes:", k, v[:2])
        print("escaping cases:", sum(len(v) for v in hits.values()))
        if hits:
            rep.violation(body["signature"], body["kind"], body)
        return
    if "provider" in body:
        from adaptix import DebugTrail, Retort
        hits = 0
        pool = hostile_pool()
        for sc in (True, False):
            for mode in ("DISABLE", "FIRST", "ALL"):
                jobs = [("builtin", Retort(strict_coercion=sc, debug_trail=getattr(DebugTrail, mode)), scalar_types())] + \
                    optional_provider_retorts(sc, mode)
                for pname, retort, types in jobs:
                    if pname != body["provider"]:
                        continue
                    for tp in types:
                        if tname(tp) != body["type"]:
                            continue
                        for wname, wtp, build in wrap_types(tp):
                            ld = retort.get_loader(wtp)
                            for d in pool:
                                try:
                                    ld(build(d))
                                except BaseException as e:  # noqa: BLE001
                                    if not only_load_errors(e):
                                        hits += 1
                                        if hits <= 3:
                                            print("escapes:", wname, sc, mode, safe_repr(d, 60), "->", safe_repr(e, 100))
        print("escaping cases:", hits)
        if hits:
            rep.violation(body["signature"], body["kind"], body)
        return
    res = lg.replay_case(rep, body)
    if res and any(o == "X" for o in res[2].values()):
        rep.violation(body["signature"], body["kind"], body)
