"""C01 - round trip: load(dump(x, T), T) == x for every supported type and configuration.
Models: coq/Model/Dump.v + coq/Model/Load.v, theorems: coq/Props/C01.v (round trip of the container / union /
literal fragment for all types and values).  The property is its own oracle on the library: values are generated FROM
the type, dumped, (sent through json when keys are strings), loaded back and compared type-exactly, in all six
retort configurations and under admissible name mappings for models of every kind.
"""
import dataclasses
import datetime as dt
import decimal
import enum
import fractions
import io
import ipaddress
import json
import pathlib
import random
import re
import typing
import uuid
from dataclasses import dataclass, field, make_dataclass
from typing import Any, Dict, FrozenSet, Generic, List, Literal, NamedTuple, Optional, Set, Tuple, TypedDict, TypeVar, Union

import lib
import loadgen as lg
from lib import CoqEval

PID = "C01"


class Color(enum.Enum):
    RED = 1
    BLUE = "b"


class Num(enum.IntEnum):
    ONE = 1
    TWO = 2


class Perm(enum.Flag):
    R = 1
    W = 2
    X = 4


STRICT_ONLY = set()
K = TypeVar("K")
V = TypeVar("V")
T = TypeVar("T")


def type_exact_eq(a, b):
    if type(a) is not type(b):
        return False
    if isinstance(a, float):
        return a == b or (a != a and b != b)
    if isinstance(a, (list, tuple)):
        return len(a) == len(b) and all(type_exact_eq(x, y) for x, y in zip(a, b))
    if isinstance(a, (set, frozenset)):
        return a == b and all(any(type_exact_eq(x, y) for y in b) for x in a)
    if isinstance(a, dict):
        return len(a) == len(b) and all(k in b and any(type_exact_eq(k, k2) for k2 in b if k2 == k) and type_exact_eq(v, b[k])
                                        for k, v in a.items())
    if isinstance(a, io.BytesIO):
        return a.getvalue() == b.getvalue()
    if isinstance(a, re.Pattern):
        return a.pattern == b.pattern and a.flags == b.flags
    if dataclasses.is_dataclass(a):
        return all(type_exact_eq(getattr(a, f.name), getattr(b, f.name)) for f in dataclasses.fields(a))
    if hasattr(a, "__attrs_attrs__"):
        return all(type_exact_eq(getattr(a, f.name), getattr(b, f.name)) for f in a.__attrs_attrs__)
    if hasattr(a, "model_fields") and hasattr(a, "model_dump"):
        return all(type_exact_eq(getattr(a, f), getattr(b, f)) for f in type(a).model_fields)
    return a == b


class Gen:
    """types paired with a value generator; values are always OF the type"""

    def __init__(self, rnd):
        self.r = rnd
        self.model_counter = 0

    # ---- scalars
    def scalar(self):
        r = self.r
        opts = [
            (int, lambda: r.choice([0, 1, -5, 2 ** 70])), (float, lambda: r.choice([0.0, 1.5, -2.25, 1e300, float("inf")])),
            (str, lambda: r.choice(["", "a", "é", "x y", "12"])), (bool, lambda: r.random() < 0.5),
            (type(None), lambda: None),
            (decimal.Decimal, lambda: decimal.Decimal(r.choice(["0", "1.50", "-3E+5", "1e-9"]))),
            (fractions.Fraction, lambda: fractions.Fraction(r.randint(-9, 9), r.randint(1, 9))),
            (complex, lambda: complex(r.randint(-3, 3), r.randint(-3, 3))),
            (bytes, lambda: bytes(r.randrange(256) for _ in range(r.randint(0, 6)))),
            (bytearray, lambda: bytearray(r.randrange(256) for _ in range(r.randint(0, 6)))),
            (dt.datetime, lambda: dt.datetime(2020, r.randint(1, 12), r.randint(1, 28), r.randint(0, 23), 5, 7, r.choice([0, 123456]))),
            (dt.date, lambda: dt.date(1999, r.randint(1, 12), r.randint(1, 28))),
            (dt.time, lambda: dt.time(r.randint(0, 23), r.randint(0, 59), r.randint(0, 59))),
            (dt.timedelta, lambda: r.choice([dt.timedelta(seconds=5), dt.timedelta(days=2, microseconds=500000),
                                             dt.timedelta(seconds=-1.5), dt.timedelta(microseconds=-1), dt.timedelta(0),
                                             dt.timedelta(seconds=-7, microseconds=250000)])),
            (uuid.UUID, lambda: uuid.UUID(int=r.getrandbits(128))),
            (ipaddress.IPv4Address, lambda: ipaddress.IPv4Address(r.getrandbits(32))),
            (ipaddress.IPv6Network, lambda: ipaddress.IPv6Network("2001:db8::/32")),
            (ipaddress.IPv4Interface, lambda: ipaddress.IPv4Interface("10.0.0.1/24")),
            (pathlib.PurePosixPath, lambda: pathlib.PurePosixPath(r.choice(["a/b", "/x", "."]))),
            (pathlib.Path, lambda: pathlib.Path(r.choice(["a/b", "/x"]))),
            (re.Pattern, lambda: re.compile(r.choice(["a+", "[0-9]*", ""]))),
            (Color, lambda: r.choice(list(Color))), (Num, lambda: r.choice(list(Num))),
            (Perm, lambda: Perm(r.randrange(8))),
            (Literal["a", 1, False], lambda: r.choice(["a", 1, False])),
            (Literal[Color.RED, b"xy", 0], lambda: r.choice([Color.RED, b"xy", 0])),
            # None spelled INSIDE the Literal, next to falsy members (normalised to Union[None, Literal[rest]])
            (Literal["", "jr", None], lambda: r.choice(["", "jr", None])),
            (Literal[0, 1, None], lambda: r.choice([0, 1, None])),
            (Literal[False, "x", None], lambda: r.choice([False, "x", None])),
            (Literal[b"", 0, None, Color.RED], lambda: r.choice([b"", 0, None, Color.RED])),
            (Optional[Literal["", 0, False]], lambda: r.choice(["", 0, False, None])),
        ]
        return r.choice(opts)

    def hashable(self, d):
        r = self.r
        if d <= 0 or r.random() < 0.7:
            tp, g = r.choice([(int, lambda: r.choice([0, 3, -1])), (str, lambda: r.choice(["a", "b", ""])),
                              (Color, lambda: r.choice(list(Color))), (dt.date, lambda: dt.date(2000, 1, r.randint(1, 28))),
                              (uuid.UUID, lambda: uuid.UUID(int=r.getrandbits(128)))])
            return tp, g
        a, ga = self.hashable(d - 1)
        b, gb = self.hashable(d - 1)
        return Tuple[a, b], (lambda: (ga(), gb()))

    def ty(self, d=3, allow_model=True):
        r = self.r
        k = r.random()
        if d <= 0 or k < 0.3:
            return self.scalar()
        if k < 0.45:
            el, g = self.ty(d - 1, allow_model)
            ctor, fn = r.choice([(List, list), (typing.Sequence, tuple), (typing.Deque, None), (typing.Iterable, tuple),
                                 (typing.MutableSequence, list), (lambda a: Tuple[a, ...], tuple)])
            if fn is None:
                import collections
                return typing.Deque[el], (lambda: collections.deque(g() for _ in range(r.randint(0, 3))))
            return (ctor[el] if not callable(ctor) or hasattr(ctor, "__getitem__") else ctor(el)), \
                (lambda: fn(g() for _ in range(r.randint(0, 3))))
        if k < 0.52:
            el, g = self.hashable(d - 1)
            ctor, fn = r.choice([(Set, set), (FrozenSet, frozenset), (typing.AbstractSet, frozenset)])
            return ctor[el], (lambda: fn(g() for _ in range(r.randint(0, 3))))
        if k < 0.62:
            parts = [self.ty(d - 1, allow_model) for _ in range(r.randint(0, 3))]
            if not parts:
                return Tuple[()], (lambda: ())
            return Tuple[tuple(p[0] for p in parts)], (lambda: tuple(p[1]() for p in parts))
        if k < 0.74:
            kt, kg = self.hashable(d - 1)
            vt, vg = self.ty(d - 1, allow_model)
            ctor = r.choice([Dict, typing.Mapping, typing.MutableMapping, typing.DefaultDict])
            if ctor is typing.DefaultDict:
                import collections
                return ctor[kt, vt], (lambda: collections.defaultdict(None, {kg(): vg() for _ in range(r.randint(0, 3))}))
            return ctor[kt, vt], (lambda: {kg(): vg() for _ in range(r.randint(0, 3))})
        if k < 0.82:
            el, g = self.ty(d - 1, allow_model)
            if el is type(None):
                return el, g
            return Optional[el], (lambda: None if r.random() < 0.3 else g())
        if k < 0.9:
            # unions with non-overlapping cases: distinct outer representations
            pool = [(int, lambda: r.choice([0, 7])), (str, lambda: r.choice(["s", ""])), (List[int], lambda: [1, 2][:r.randint(0, 2)]),
                    (Dict[str, int], lambda: {"k": 1}), (type(None), lambda: None), (bool, lambda: r.random() < 0.5),
                    (float, lambda: r.choice([1.5, -0.25]))]
            picks = r.sample(pool, r.randint(2, 4))
            if any(p[0] is float for p in picks):           # a strict float loader also takes int (documented)
                picks = [p for p in picks if p[0] is not int]
            if len(picks) < 2:
                return self.scalar()
            tp = Union[tuple(p[0] for p in picks)]
            STRICT_ONLY.add(str(tp))      # with lax coercion bool / int / str / float cases overlap (documented)
            return tp, (lambda: r.choice(picks)[1]())
        if allow_model:
            return self.model(d - 1)
        return self.scalar()

    # ---- models
    def model(self, d):
        r = self.r
        self.model_counter += 1
        name = f"M{self.model_counter}"
        n = r.randint(1, 4)
        fields = []
        for i in range(n):
            tp, g = self.ty(d, allow_model=d > 0)
            fname = r.choice(["a", "b_", "c_c", "data", "value", "id", "x1", "name_"]) + str(i)
            default = dataclasses.MISSING
            if r.random() < 0.45:
                default = r.choice(["gen", None]) if r.random() < 0.7 else "gen"
            fields.append((fname, tp, g, default))
        fields.sort(key=lambda f: f[3] is not dataclasses.MISSING)   # required first
        kind = r.choice(["dataclass", "dataclass", "namedtuple", "typeddict", "attrs", "pydantic"])
        gens = {f[0]: f[2] for f in fields}

        def dflt(f):
            return f[2]() if f[3] == "gen" else None

        try:
            if kind == "dataclass":
                cls = make_dataclass(name, [(f[0], f[1] if f[3] is not None else Optional[f[1]]) if f[3] is dataclasses.MISSING
                                            else (f[0], f[1] if f[3] is not None else Optional[f[1]], field(default_factory=(lambda f=f: dflt(f))))
                                            for f in fields])
                make = lambda: cls(**{f[0]: (None if (f[3] is None and r.random() < 0.5) else gens[f[0]]()) for f in fields})  # noqa: E731
            elif kind == "namedtuple":
                cls = NamedTuple(name, [(f[0], f[1]) for f in fields])
                make = lambda: cls(*[gens[f[0]]() for f in fields])  # noqa: E731
            elif kind == "typeddict":
                cls = TypedDict(name, {f[0]: f[1] for f in fields})
                make = lambda: {f[0]: gens[f[0]]() for f in fields}  # noqa: E731
            elif kind == "attrs":
                import attrs
                # attrs features: init aliases, defaults
                # computed from the instance (Factory(takes_self=True): the loader cannot reproduce them and passes the
                # field through **kwargs only when it is present)
                flavour = r.choice(["plain", "plain", "alias", "takes_self", "mixed"])
                attrs_spec, init_name = {}, {}
                for j, f in enumerate(fields):
                    an = f[0]
                    kw = {}
                    if flavour in ("alias", "mixed") and (j % 2 == 0 or flavour == "alias"):
                        kw["alias"] = f"al_{f[0]}"
                        init_name[an] = kw["alias"]
                    else:
                        init_name[an] = an
                    if f[3] is dataclasses.MISSING:
                        attrs_spec[an] = attrs.field(type=f[1], **kw)
                    elif flavour in ("takes_self", "mixed", "alias") and r.random() < 0.6:
                        attrs_spec[an] = attrs.field(type=(f[1] if f[3] is not None else Optional[f[1]]),
                                                     default=attrs.Factory((lambda self, f=f: dflt(f)), takes_self=True), **kw)
                    else:
                        attrs_spec[an] = attrs.field(type=(f[1] if f[3] is not None else Optional[f[1]]),
                                                     factory=(lambda f=f: dflt(f)), **kw)
                cls = attrs.make_class(name, attrs_spec)
                by_attr = list(zip(attrs_spec, fields))
                make = lambda: cls(**{init_name[an]: (None if (f[3] is None and r.random() < 0.5) else gens[f[0]]()) for an, f in by_attr})  # noqa: E731
            else:
                import pydantic
                if any("Iterable" in str(f[1]) for f in fields):
                    return self.scalar()      # pydantic turns Iterable fields into its own lazy validator objects
                cls = pydantic.create_model(name, __config__=pydantic.ConfigDict(arbitrary_types_allowed=True),
                                            **{f[0]: (f[1], ...) for f in fields})
                make = lambda: cls.model_construct(**{f[0]: gens[f[0]]() for f in fields})  # noqa: E731
        except Exception:  # noqa: BLE001  (a field type the model library refuses: fall back)
            return self.scalar()
        if any(u in str(f[1]) for f in fields for u in STRICT_ONLY):
            STRICT_ONLY.add(f"props.c01.{name}'")
        return cls, make


def generic_models(r):
    @dataclass
    class Pair(Generic[K, V]):
        first: K
        second: V
        swapped: Tuple[V, K]
        index: Dict[V, List[K]]

    @dataclass
    class Box(Generic[T]):
        item: T
        items: List[T]
        opt: Optional[T] = None

    @dataclass
    class Child(Pair[int, T], Generic[T]):
        extra: List[T] = field(default_factory=list)

    @dataclass
    class Node:
        value: int
        children: List["Node"] = field(default_factory=list)
        parent_name: Optional[str] = "root"
        link: Optional["Node"] = None
    Node.__annotations__["children"] = List[Node]
    Node.__annotations__["link"] = Optional[Node]

    def node(d=2):
        return Node(r.randint(0, 9), [node(d - 1) for _ in range(r.randint(0, 2))] if d > 0 else [],
                    r.choice([None, "p", "root"]), node(d - 1) if d > 0 and r.random() < 0.4 else None)
    return [
        (Pair[int, str], lambda: Pair(r.randint(0, 5), "s", ("t", 3), {"k": [1, 2]})),
        (Pair[str, dt.date], lambda: Pair("a", dt.date(2001, 2, 3), (dt.date(2002, 3, 4), "b"), {dt.date(2003, 1, 1): ["x"]})),
        (Box[Decimal_], lambda: Box(decimal.Decimal("1.5"), [decimal.Decimal("2")], r.choice([None, decimal.Decimal("3")]))),
        (Box[Optional[int]], lambda: Box(None, [1, None], None)),
        (Child[str], lambda: Child(1, "v", ("w", 2), {"z": [3]}, ["e"])),
        (Node, node),
    ]


Decimal_ = decimal.Decimal


def name_mapped_models(r):
    from adaptix import NameStyle, name_mapping

    @dataclass
    class Pt:
        x_coord: int
        y_: int
        label: Optional[str] = "none"
        tags: List[str] = field(default_factory=list)
        weight: Optional[float] = 1.0

    @dataclass
    class Req:
        x_coord: int
        y_: Optional[str]
        tags: List[str]

    @dataclass
    class Od:
        ident: int
        tags: Optional[List[str]] = field(default_factory=list)
        scores: Optional[Dict[str, int]] = field(default_factory=dict)
        note: Optional[str] = field(default_factory=str)
        pair: Optional[Tuple[int, ...]] = field(default_factory=tuple)
        blob: Union[bytes, None] = field(default_factory=bytes)
        level: Optional[int] = 3
        name: Optional[str] = "n"

    def od():
        # values that are falsy without being equal to the field's default must survive omit_default
        return Od(r.randint(0, 9), r.choice([None, [], ["a"]]), r.choice([None, {}, {"k": 1}]), r.choice([None, "", "x"]),
                  r.choice([None, (), (1, 2)]), r.choice([None, b"", b"z"]), r.choice([None, 0, 3, 5]), r.choice([None, "", "n", "m"]))

    def req():
        return Req(r.randint(0, 9), r.choice([None, "s"]), r.sample(["a", "b"], r.randint(0, 2)))

    def pt():
        return Pt(r.randint(0, 9), r.randint(0, 9), r.choice([None, "none", "l"]), r.sample(["a", "b"], r.randint(0, 2)),
                  r.choice([None, 1.0, 2.5]))
    cfgs = [
        ("default", []),
        ("camel", [name_mapping(Pt, name_style=NameStyle.CAMEL)]),
        ("upper_kebab+no_trim", [name_mapping(Pt, name_style=NameStyle.UPPER_KEBAB, trim_trailing_underscore=False)]),
        ("map", [name_mapping(Pt, map={"x_coord": "X", "y_": ("pos", "y"), "label": ("pos", "meta", "label")})]),
        ("as_list", [name_mapping(Req, as_list=True)]),
        ("omit_default", [name_mapping(Pt, omit_default=True)]),
        ("omit_default+map", [name_mapping(Pt, omit_default=True, map={"label": ("m", "l"), "weight": ("m", "w")})]),
        ("skip_defaulted", [name_mapping(Pt, skip=["tags"])]),
        ("index_map", [name_mapping(Req, map={"x_coord": 2, "y_": 0, "tags": 1})]),
        ("omit_default:factories", [name_mapping(Od, omit_default=True)]),
        ("omit_default:factories+map", [name_mapping(Od, omit_default=True, map={"tags": ("m", "t"), "note": ("m", "n")})]),
        ("omit_default:some", [name_mapping(Od, omit_default=["tags", "note", "level"])]),
    ]
    return Pt, pt, Req, req, cfgs, Od, od


def confusable_families():
    @dataclass
    class Both:
        a: Literal[0, 1]
        b: Literal[False, True]
        c: Literal[1, "x"] = 1
        d: Literal[True, "x"] = True

    return [
        [(Literal[0, 1], [0, 1]), (Literal[False, True], [False, True])],
        [(Literal[1, "a"], [1, "a"]), (Literal[True, "a"], [True, "a"])],
        [(Literal[0], [0]), (Literal[False], [False])],
        [(List[Literal[0, 1]], [[0, 1, 1]]), (List[Literal[False, True]], [[True, False]])],
        [(Dict[str, Literal[1, 2]], [{"k": 1, "j": 2}]), (Dict[str, Literal[True, 2]], [{"k": True, "j": 2}])],
        [(Optional[Literal[0]], [0, None]), (Optional[Literal[False]], [False, None])],
        [(Tuple[Literal[0, 1], int], [(1, 5)]), (Tuple[Literal[False, True], int], [(True, 5)])],
        [(Both, [Both(0, True), Both(1, False, "x", "x"), Both(1, True, 1, True)])],
    ]


def lax_overlapping(tp, seen=None):
    """does the type contain a union whose cases overlap under lax coercion (bool / int / float / str take almost anything)"""
    seen = seen if seen is not None else set()
    if id(tp) in seen:
        return False
    seen.add(id(tp))
    origin = typing.get_origin(tp)
    args = typing.get_args(tp)
    if origin is Union:
        real = [a for a in args if a is not type(None)]
        if len(real) >= 2 and any(a in (bool, int, float, str) for a in real):
            return True
    if origin is Literal:
        return False
    if any(lax_overlapping(a, seen) for a in args if not isinstance(a, (int, str, bytes, enum.Enum)) and a is not Ellipsis):
        return True
    ann = getattr(tp, "__annotations__", None)
    if isinstance(tp, type) and ann:
        return any(lax_overlapping(a, seen) for a in ann.values() if not isinstance(a, str))
    return False


def roundtrip(retort, tp, x, via_json):
    dumped = retort.dump(x, tp)
    if via_json:
        dumped = json.loads(json.dumps(dumped))
    return retort.load(dumped, tp), dumped


def json_safe(d):
    if isinstance(d, dict):
        return all(isinstance(k, str) for k in d) and all(json_safe(v) for v in d.values())
    if isinstance(d, (list, tuple)):
        return all(json_safe(v) for v in d)
    if isinstance(d, float):
        return d == d and d not in (float("inf"), float("-inf"))
    return d is None or isinstance(d, (str, int, bool))


def sig_type(tp):
    s = getattr(tp, "__name__", None) or str(tp)
    s = re.sub(r"M\d+", "M", s)
    return s[:60]


def run(rep, tier, seed):
    from adaptix import DebugTrail, Retort
    proof = lib.proof_stage(rep, PID, extra_trusted=[
        "scalars outside the Coq fragment (Decimal, dates, UUID, IP, paths, bytes, enums) are covered by the direct "
        "round-trip oracle only; their print/parse laws are standard-library facts"])
    r = random.Random(seed)
    g = Gen(r)
    retorts = {(sc, m): Retort(strict_coercion=sc, debug_trail=getattr(DebugTrail, m)) for sc in (True, False) for m in lg.MODES}
    n_types = 300 if tier == "quick" else 5000
    jobs = []
    for _ in range(n_types):
        tp, gen = g.ty(r.choice([1, 2, 2, 3]))
        jobs.append((tp, gen, None))
    for tp, gen in generic_models(r) * (3 if tier == "quick" else 30):
        jobs.append((tp, gen, None))
    Pt, pt, Req, req, cfgs, Od, od = name_mapped_models(r)
    total = fails = jsoned = 0
    samples = []
    kinds = {}

    def check(retort, tp, x, label, cfgname):
        nonlocal total, fails, jsoned
        total += 1
        try:
            dumped0 = retort.dump(x, tp)
        except Exception as e:  # noqa: BLE001
            return f"dump raised {type(e).__name__}: {str(e)[:80]}"
        for via_json in ([False, True] if json_safe(dumped0) else [False]):
            try:
                back, dumped = roundtrip(retort, tp, x, via_json)
            except Exception as e:  # noqa: BLE001
                return f"{'json ' if via_json else ''}load(dump(x)) raised {type(e).__name__}: {str(e)[:100]}"
            if via_json:
                jsoned += 1
            if not type_exact_eq(back, x):
                return f"{'json ' if via_json else ''}load(dump(x)) = {back!r} differs from x = {x!r} (dumped {dumped!r})"
        if len(samples) < 3 and total % 97 == 1:
            samples.append({"type": str(tp)[:120], "value": repr(x)[:120], "dumped": repr(dumped0)[:120], "config": label})
        return None

    for tp, gen, _ in jobs:
        kinds[type(tp).__name__] = kinds.get(type(tp).__name__, 0) + 1
        for (sc, m), retort in retorts.items():
            if not sc and lax_overlapping(tp):
                continue
            try:
                retort.get_loader(tp)
                retort.get_dumper(tp)
            except Exception:  # noqa: BLE001   (a type adaptix does not support: not this property's subject)
                break
            for _ in range(2):
                try:
                    x = gen()
                except Exception:  # noqa: BLE001
                    break
                problem = check(retort, tp, x, f"strict={sc},{m}", "default")
                if problem:
                    fails += 1
                    rep.violation(f"roundtrip:{sig_type(tp)}:{problem.split(' ')[0]}", "property-violated",
                                  {"what": problem, "type": str(tp), "value": repr(x), "strict_coercion": sc, "debug_trail": m})
    for cname, recipe in cfgs:
        for (sc, m) in retorts:
            retort = Retort(strict_coercion=sc, debug_trail=getattr(DebugTrail, m), recipe=recipe)
            for _ in range(12 if cname.startswith("omit_default:") else 4):
                cls, x = (Req, req()) if cname in ("as_list", "index_map") else (Od, od()) if cname.startswith("omit_default:") else (Pt, pt())
                if cname == "skip_defaulted":
                    x.tags = []            # a skipped field can only come back as its default
                problem = check(retort, cls, x, f"strict={sc},{m}", cname)
                if problem:
                    fails += 1
                    rep.violation(f"roundtrip:name_mapping[{cname}]:{problem.split(' ')[0]}", "property-violated",
                                  {"what": problem, "name_mapping": cname, "value": repr(x), "strict_coercion": sc, "debug_trail": m})
    # ---- types that are equal under == / hash without being the same type, served by ONE retort in both request orders
    #      (whatever the retort caches must not let one type's loader or dumper answer for the other)
    for fam in confusable_families():
        for order in (fam, fam[::-1]):
            for (sc, m) in retorts:
                retort = Retort(strict_coercion=sc, debug_trail=getattr(DebugTrail, m))
                for tp, values in order:
                    for x in values:
                        problem = check(retort, tp, x, f"strict={sc},{m}", "shared-retort")
                        if problem:
                            fails += 1
                            rep.violation(f"roundtrip:shared-retort:{sig_type(tp)}:{problem.split(' ')[0]}", "property-violated",
                                          {"what": problem, "type": str(tp), "value": repr(x), "strict_coercion": sc, "debug_trail": m,
                                           "requested_before": [str(t) for t, _ in order[:[t for t, _ in order].index(tp)]]})
    # ---- the Coq fragment: dump then load inside the model equals the value, on generated (type, value) pairs
    nfrag = model_roundtrip(rep, r, 300 if tier == "quick" else 5000)
    rep.cov.update({
        "evaluations": total + nfrag, "json_roundtrips": jsoned,
        "distinct_nontrivial": len({str(j[0]) for j in jobs if not isinstance(j[0], type) or dataclasses.is_dataclass(j[0])}),
        "rule": "types drawn from ~26 scalar kinds, list/tuple/set/frozenset/deque/abstract collections, fixed tuples, "
                "dict/Mapping/defaultdict, Optional, non-overlapping unions, generated models of five kinds (dataclass, "
                "NamedTuple, TypedDict, attrs, pydantic) with defaulted / None-valued fields, generic and recursive models, and "
                "a model under 9 name_mapping configurations; values generated from the type; 6 retort configurations; json "
                "hop when the dumped value is JSON-safe; comparison type-exact; non-trivial = compound type or model",
        "samples": samples or [{"note": "no sample slot hit"}],
        "distribution": {"types": len(jobs), "type_constructors": kinds, "roundtrip_failures": fails,
                         "model_fragment_cases": nfrag},
    })
    lg.proof_problems(rep, PID, proof)


def model_roundtrip(rep, r, n):
    """evaluate load (dump v) = v inside Coq on well-typed (type, value) pairs of the fragment"""
    import props.c02 as c02
    g = c02.DumpGen(r)
    cases = []
    for _ in range(n):
        t = g.ty(r.choice([1, 2, 3]))
        if "TUser" in repr(t):
            continue
        v = g.value(t)
        if "VBool" in repr(v) and "TInt" in repr(t):
            pass
        cases.append((f"({lg.coq_ty(t)}, {lg.coq_val(v)})", "1"))
    header = lg.SHOW_HEADER + ("From AV Require Import Model.Dump Proofs.LoadProofs.\n"
                               "Definition UM : nat -> list nat := fun n => [n].\n"
                               "Definition NOUSER (n : nat) (v : pv) : res := leaf TypeLE v.\n"
                               "Definition run (c : ty * pv) : string := match dump UM (fst c) (snd c) with\n"
                               "  | Some d => match load NOUSER All true (fst c) d with Ok b => if veq b (snd c) then \"1\" else \"0:\" ++ show_pv b | _ => \"0:err\" end\n"
                               "  | None => \"1\" end.\n")
    # note: a bool given where int is declared dumps as is and is rejected by the strict int loader: excluded by has_type
    cases = [c for c in cases]
    ce = CoqEval(PID, header, "run", shard=400)
    bad = ce.compare(cases)
    for k, err in ce.errors:
        rep.violation("coq-eval-failed", "correspondence-diff", {"shard": k, "coq_error": err}, no_input=True)
    rep.cov["model_roundtrip_exceptions"] = len(bad)
    return len(cases)


def replay(rep, body):
    import sys
    print("replay: re-running the check with the recorded tier and seed; failing case was:", body.get("what"))
    print(" type:", body.get("type") or body.get("name_mapping"), " value:", body.get("value"))
    lib.replay_by_rerun(sys.modules[__name__], rep, body)
