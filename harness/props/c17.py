"""C17 - all supported model kinds behave the same for the same logical model.
Model: coq/Model/Kinds.v (what each introspector returns in the common shape vocabulary), theorems: coq/Props/C17.v
(kinds that keep the definition order give the very same layout, crown and therefore behaviour; TypedDict's alphabetical
order changes no path unless as_list is used).

Tie: every generated logical model (names, int / str fields, required / default value / default factory, keyword-only,
a private field) is materialised as dataclass, NamedTuple, TypedDict, attrs class, pydantic model and SQLAlchemy mapped
class - each kind only where the documentation says it can express the model - and the kinds are compared with each
other: same input -> field-wise equal objects, dumps equal, same error classes and trails for bad input, same response to
the same name_mapping (rename, name_style, skip, omit_default, extra_in forbid), converters between every ordered pair
of kinds copy every field.  The field lists the model predicts per kind are compared with the shapes adaptix reports.
"""
import itertools
import random
from dataclasses import field as dc_field
from dataclasses import make_dataclass
import types
from typing import Annotated, Any, NamedTuple, NotRequired, Optional, Required, TypedDict

import lib
from lib import CoqEval, coq_list, coq_str

PID = "C17"
NAMES = ["alpha", "beta", "gamma", "delta", "eps", "zeta", "b_c", "id_"]
KINDS = ["dataclass", "named_tuple", "typed_dict", "attrs", "pydantic", "sqlalchemy"]


def gen_lm(r):
    """logical model: list of dict(name, type, required, default, kw_only)"""
    n = r.choice([2, 3, 3, 4])
    names = r.sample(NAMES, n)
    out = []
    for i, nm in enumerate(names):
        ty = r.choice(["int", "int", "str"])
        required = r.random() < 0.6
        if not required and r.random() < 0.3:
            ty = "optint"                                   # Optional[int] = None: the default is the value None itself
        out.append({"name": nm, "type": ty, "required": required,
                    "default": None if required or ty == "optint" else (10 + i if ty == "int" else f"d{i}"),
                    "kw_only": False})
        # the default given as a zero-argument factory that returns that same value (where the kind has factories)
        out[-1]["factory"] = (not required) and ty != "optint" and r.random() < 0.35
    out.sort(key=lambda f: not f["required"])               # positional kinds need required first
    if r.random() < 0.3:
        out[-1]["kw_only"] = True
    if r.random() < 0.3:
        r.choice([out[0], out[-1], out[-1]])["private"] = True     # attribute _name; attrs' parameter drops the underscore
    return out


def _f(name, ty, required, default=None, factory=False, kw_only=False):
    return {"name": name, "type": ty, "required": required, "default": default, "kw_only": kw_only, "factory": factory}


# logical models that run first on every seed
CORPUS_LM = [
    [_f("id", "int", True), _f("role", "str", False, "guest", factory=True), _f("note", "str", False, "-")],
    [_f("code", "str", True), _f("title", "str", True), _f("rank", "int", False, 3, factory=True)],
    [_f("alpha", "int", True), _f("beta", "int", False, 11, factory=True), _f("gamma", "str", False, "g", factory=True, kw_only=True)],
]


def const_factory(d):
    """a zero-argument factory (SQLAlchemy passes a context to callables that take a parameter)"""
    return lambda: d


def attr_name(f):
    return "_" + f["name"] if f.get("private") else f["name"]


def supports(kind, lm):
    has_default = any(not f["required"] for f in lm)
    private = any(f.get("private") for f in lm)
    kw = any(f["kw_only"] for f in lm)
    if kind == "typed_dict":
        return not private            # optional keys have no defaults: compared on present keys only
    if kind == "named_tuple":
        return not private and not kw
    if kind == "pydantic":
        return not private            # private attributes are a separate category there
    if kind == "sqlalchemy":
        return not private and not kw and not any(f["type"] == "optint" for f in lm)
    return True


_counter = itertools.count()


def materialise(kind, lm):
    import attrs
    py = {"int": int, "str": str, "optint": Optional[int]}
    n = next(_counter)
    if kind == "dataclass":
        specs = []
        for f in lm:
            kw = {"kw_only": True} if f["kw_only"] else {}
            specs.append((attr_name(f), py[f["type"]], dc_field(**kw) if f["required"] else
                          dc_field(default_factory=const_factory(f["default"]), **kw) if f.get("factory") else dc_field(default=f["default"], **kw)))
        return make_dataclass(f"DC{n}", specs)
    if kind == "named_tuple":
        ns = {}
        ann = {f["name"]: py[f["type"]] for f in lm}
        body = {"__annotations__": ann}
        for f in lm:
            if not f["required"]:
                body[f["name"]] = f["default"]
        return NamedTuple(f"NT{n}", [(f["name"], py[f["type"]]) for f in lm]) if all(f["required"] for f in lm) else \
            _namedtuple_with_defaults(f"NT{n}", lm, py)
    if kind == "typed_dict":
        # the same logical model in the different ways a TypedDict can say which keys are required
        tname = {"int": "int", "str": "str", "optint": "Optional[int]"}
        spelling = n % 6
        if spelling == 0:
            return TypedDict(f"TD{n}", {f["name"]: (py[f["type"]] if f["required"] else NotRequired[py[f["type"]]]) for f in lm})
        if spelling == 1:       # total=False, required keys marked
            return TypedDict(f"TD{n}", {f["name"]: (Required[py[f["type"]]] if f["required"] else py[f["type"]]) for f in lm}, total=False)
        if spelling == 2:       # the same with stringified annotations (from __future__ import annotations)
            return TypedDict(f"TD{n}", {f["name"]: (f"Required[{tname[f['type']]}]" if f["required"] else tname[f["type"]]) for f in lm},
                             total=False)
        if spelling == 3:       # stringified NotRequired under total=True
            return TypedDict(f"TD{n}", {f["name"]: (tname[f["type"]] if f["required"] else f"NotRequired[{tname[f['type']]}]") for f in lm})
        if spelling == 4:       # markers wrapped in Annotated, stringified
            return TypedDict(f"TD{n}", {f["name"]: (f"Annotated[Required[{tname[f['type']]}], 'm']" if f["required"]
                                                     else f"Annotated[{tname[f['type']]}, 'm']") for f in lm}, total=False)
        # required keys in a total base, optional keys in a non-total subclass
        base = TypedDict(f"TDB{n}", {f["name"]: py[f["type"]] for f in lm if f["required"]})
        return types.new_class(f"TD{n}", (base,), {"total": False},
                               lambda ns: ns.update({"__annotations__": {f["name"]: py[f["type"]] for f in lm if not f["required"]}}))
    if kind == "attrs":
        attrib = {}
        for f in lm:
            kw = {"kw_only": True} if f["kw_only"] else {}
            attrib[attr_name(f)] = attrs.field(type=py[f["type"]], **kw) if f["required"] else \
                attrs.field(type=py[f["type"]], factory=const_factory(f["default"]), **kw) if f.get("factory") else \
                attrs.field(type=py[f["type"]], default=f["default"], **kw)
        return attrs.make_class(f"AT{n}", attrib)
    if kind == "pydantic":
        import pydantic
        fields = {f["name"]: ((py[f["type"]], ...) if f["required"] else
                              (py[f["type"]], pydantic.Field(default_factory=const_factory(f["default"]))) if f.get("factory") else
                              (py[f["type"]], f["default"])) for f in lm}
        return pydantic.create_model(f"PD{n}", **fields)
    if kind == "sqlalchemy":
        from sqlalchemy import Integer, String
        from sqlalchemy.orm import DeclarativeBase, Mapped, mapped_column

        Base = type(f"Base{n}", (DeclarativeBase,), {})
        body = {"__tablename__": f"t{n}", "__annotations__": {}}
        first = True
        for f in lm:
            col_t = Integer if f["type"] == "int" else String
            kw = {}
            if first:
                # a natural (string) key is declared the ordinary way; an integer key says it is not generated by the database
                kw = {"primary_key": True} if f["type"] == "str" else {"primary_key": True, "autoincrement": False}
                first = False
            if not f["required"]:
                kw["default"] = const_factory(f["default"]) if f.get("factory") else f["default"]
            body["__annotations__"][f["name"]] = Mapped[py[f["type"]]]
            body[f["name"]] = mapped_column(col_t, **kw)
        return type(f"SA{n}", (Base,), body)
    raise ValueError(kind)


def _namedtuple_with_defaults(name, lm, py):
    src = f"class {name}(NamedTuple):\n" + "".join(
        f"    {f['name']}: {f['type']}" + ("" if f["required"] else f" = {f['default']!r}") + "\n" for f in lm)
    ns = {"NamedTuple": NamedTuple, "optint": Optional[int]}
    exec(src, ns)  # noqa: S102  (names and defaults from our own pools)
    return ns[name]


def values_of(kind, lm, obj):
    """field name -> value, or '<absent>' for a TypedDict key that is not there"""
    out = {}
    for f in lm:
        if kind == "typed_dict":
            out[f["name"]] = obj.get(f["name"], "<absent>")
        else:
            out[f["name"]] = getattr(obj, attr_name(f))
    return out


def build(kind, cls, lm, vals):
    if kind == "typed_dict":
        return dict(vals)
    if kind in ("attrs",):
        return cls(**{f["name"]: vals[f["name"]] for f in lm if f["name"] in vals})
    return cls(**{attr_name(f) if kind == "dataclass" else f["name"]: vals[f["name"]] for f in lm if f["name"] in vals})


def recipes_for(cls, lm, r):
    from adaptix import ExtraForbid, NameStyle, name_mapping
    names = [attr_name(f) for f in lm]
    plain = [f["name"] for f in lm]
    optional = [attr_name(f) for f in lm if not f["required"]]
    out = [("default", [], lambda n: n if not n.endswith("_") else n.rstrip("_"))]
    out.append(("camel", [name_mapping(cls, name_style=NameStyle.CAMEL)], None))
    out.append(("rename", [name_mapping(cls, map={names[-1]: "renamed", names[0]: ("nest", "k")})], None))
    if optional:
        out.append(("skip", [name_mapping(cls, skip=[optional[0]])], None))
        out.append(("omit", [name_mapping(cls, omit_default=True)], None))
    out.append(("forbid", [name_mapping(cls, extra_in=ExtraForbid())], None))
    return out


def outcome(fn):
    from adaptix.load_error import AggregateLoadError, LoadError
    from adaptix.struct_trail import get_trail
    try:
        return ("ok", fn())
    except AggregateLoadError as e:
        return ("err", sorted((type(x).__name__, tuple(map(str, get_trail(x)))) for x in e.exceptions))
    except LoadError as e:
        return ("err", [(type(e).__name__, tuple(map(str, get_trail(e))))])
    except Exception as e:  # noqa: BLE001
        return ("raises", type(e).__name__ + ": " + str(e)[:80])


def run(rep, tier, seed):
    from adaptix import DebugTrail, ProviderNotFoundError, Retort
    from adaptix.conversion import get_converter
    proof = lib.proof_stage(rep, PID, extra_trusted=[
        "what dataclasses / typing / attrs / pydantic / SQLAlchemy do at class creation is the behaviour of those packages: "
        "the model states what each introspector returns, the harness compares it with the shapes adaptix reports",
        "pydantic re-validates what adaptix passes to its constructor; values are generated inside the types' domains"])
    r = random.Random(seed)
    n_models = 25 if tier == "quick" else 250
    stats = {"models": 0, "kinds": {k: 0 for k in KINDS}, "loads": 0, "dumps": 0, "converters": 0, "shape_checks": 0, "recipes": {}}
    shape_cases, shape_meta, samples = [], [], []
    for mi in range(n_models + len(CORPUS_LM)):
        lm = [dict(f) for f in CORPUS_LM[mi]] if mi < len(CORPUS_LM) else gen_lm(r)
        kinds = [k for k in KINDS if supports(k, lm)]
        classes = {}
        for k in kinds:
            try:
                classes[k] = materialise(k, lm)
                stats["kinds"][k] += 1
            except Exception as e:  # noqa: BLE001
                rep.violation(f"materialise:{k}", "harness-error", {"what": f"cannot build the {k} twin: {type(e).__name__}: {e}", "lm": lm})
        stats["models"] += 1
        info = {"logical_model": lm}
        # ---------------------------------------------------------------- shapes against the model
        for k, cls in classes.items():
            stats["shape_checks"] += 1
            try:
                got = reported_fields(cls)
            except Exception as e:  # noqa: BLE001
                got = f"raises {type(e).__name__}: {str(e)[:80]}"
            shape_cases.append((f"({coq_kind(k)}, {coq_lm(lm)})", got))
            shape_meta.append(dict(info, kind=k, reported=got))
        # ---------------------------------------------------------------- behaviour across kinds
        good = {f["name"]: (r.randint(1, 99) if f["type"] in ("int", "optint") else f"s{r.randint(1, 9)}") for f in lm}
        inputs = [("all", dict(good)), ("required-only", {f["name"]: good[f["name"]] for f in lm if f["required"]})]
        req = [f["name"] for f in lm if f["required"]]
        if req:
            inputs.append(("missing", {k: v for k, v in good.items() if k != req[0]}))
        inputs.append(("ill-typed", dict(good, **{lm[0]["name"]: [1]})))
        inputs.append(("extra", dict(good, zz=1)))
        mode = [DebugTrail.ALL, DebugTrail.FIRST, DebugTrail.DISABLE][mi % 3]
        first_kind = next(iter(classes))
        for rname, _, _ in recipes_for(classes[first_kind], lm, r):
            stats["recipes"][rname] = stats["recipes"].get(rname, 0) + 1
            per_kind = {}
            for k, cls in classes.items():
                recipe = next(rc for nm, rc, _ in recipes_for(cls, lm, r) if nm == rname)
                rt = Retort(recipe=recipe, debug_trail=mode, strict_coercion=True)
                res = {}
                try:
                    ld, dm = rt.get_loader(cls), rt.get_dumper(cls)
                except ProviderNotFoundError as e:
                    per_kind[k] = {"creation": "refused"}
                    continue
                # where this recipe puts every field: dump an object holding a distinct sentinel per field
                sent = {f["name"]: (9000 + i if f["type"] in ("int", "optint") else f"sentinel{i}") for i, f in enumerate(lm)}
                probe = outcome(lambda: dm(build(k, cls, lm, sent)))
                full = build(k, cls, lm, good)
                d = outcome(lambda: dm(full))
                stats["dumps"] += 1
                res["dump"] = d
                if k != "typed_dict":      # (a TypedDict has no defaults)
                    # an object whose optional fields hold their defaults, every second one: what omit_default leaves out
                    # and what the other variants write must not depend on the kind
                    opt = [f for f in lm if not f["required"]]
                    for tag, chosen in (("dump:all-defaults", opt), ("dump:some-defaults", opt[::2])):
                        vals = dict(good, **{f["name"]: f["default"] for f in chosen})
                        res[tag] = outcome(lambda: dm(build(k, cls, lm, vals)))
                        stats["dumps"] += 1
                if d[0] == "ok" and probe[0] == "ok":
                    paths = paths_of(probe[1], sent)
                    back = outcome(lambda: ld(d[1]))
                    stats["loads"] += 1
                    res["roundtrip"] = (back[0], values_of(k, lm, back[1]) if back[0] == "ok" else back[1])
                    for label, data in inputs:
                        keyed = place_all(paths, data)
                        o = outcome(lambda: ld(keyed))
                        stats["loads"] += 1
                        res[label] = (o[0], values_of(k, lm, o[1]) if o[0] == "ok" else o[1])
                per_kind[k] = res
            compare_kinds(rep, per_kind, lm, rname, mode.name, info)
        # ---------------------------------------------------------------- converters between kinds
        for ks, kd in itertools.permutations(classes, 2):
            if tier == "quick" and (hash((ks, kd, mi)) % 3):
                continue
            stats["converters"] += 1
            src_obj = build(ks, classes[ks], lm, good)
            o = outcome(lambda: get_converter(classes[ks], classes[kd])(src_obj))
            if o[0] != "ok":
                rep.violation(f"convert:{ks}->{kd}:{o[0]}", "property-violated",
                              dict(info, what=f"converter {ks} -> {kd} of the same logical model fails: {o[1]}"))
                continue
            got = values_of(kd, lm, o[1])
            if got != good:
                rep.violation(f"convert:{ks}->{kd}:fields", "property-violated",
                              dict(info, what=f"converter {ks} -> {kd} does not copy every field: {got} instead of {good}"))
        # a destination field the source does not have (allowed to stay at its default): nothing else may move
        opt_mid = [i for i, f in enumerate(lm[:-1]) if not f["required"] and not f.get("private")]
        if opt_mid:
            from adaptix.conversion import allow_unlinked_optional
            drop = lm[opt_mid[0]]
            sub = [f for f in lm if f is not drop]
            S = materialise("dataclass", sub)
            src_obj = build("dataclass", S, sub, {f["name"]: good[f["name"]] for f in sub})
            for kd, D in classes.items():
                stats["converters"] += 1
                o = outcome(lambda: get_converter(S, D, recipe=[allow_unlinked_optional(attr_name(drop))])(src_obj))
                if o[0] != "ok":
                    rep.violation(f"convert-partial:{kd}:{o[0]}", "property-violated",
                                  dict(info, what=f"converter dataclass (without {drop['name']!r}) -> {kd} with allow_unlinked_optional fails: {o[1]}"))
                    continue
                got = values_of(kd, lm, o[1])
                want = {f["name"]: good[f["name"]] for f in sub}
                if {k: v for k, v in got.items() if k != drop["name"]} != want:
                    rep.violation(f"convert-partial:{kd}:fields", "property-violated",
                                  dict(info, what=f"converter dataclass (without {drop['name']!r}) -> {kd}: fields moved: {got} instead of {want}"))
        if len(samples) < 3 and mi % 9 == 2:
            samples.append({"logical_model": lm, "kinds": kinds})
    ev = CoqEval(PID, "From AV Require Import Model.Kinds.\nOpen Scope string_scope.", "(fun c => show_shape (fst c) (snd c))", shard=200)
    for idx, got in ev.compare(shape_cases):
        m = shape_meta[idx]
        rep.violation(f"shape:{m['kind']}", "model-disagrees",
                      dict(m, what=f"the fields adaptix reports for the {m['kind']} twin differ from the model of its introspector", model=got))
    for k, err in ev.errors:
        rep.violation("coq-eval-error", "harness-error", {"what": err[-1500:]}, no_input=True)
    n_rec = recursive_block(rep)
    rep.cov.update({
        "evaluations": stats["loads"] + stats["dumps"] + stats["converters"] + stats["shape_checks"] + n_rec,
        "distinct_nontrivial": stats["models"],
        "rule": "logical models of 2-4 fields over 8 snake-case names (one with a trailing underscore), int / str / Optional[int] = None, "
                "required or defaulted (objects holding all / some defaults are dumped too), a self-referencing model with "
                "forward references in five kinds, the last field keyword-only in 30%, the first one private in 25%; each materialised in the kinds "
                "that can express it (NamedTuple / SQLAlchemy: no keyword-only, no private; TypedDict / pydantic: no private); "
                "per model 6 name_mapping variants (default, CAMEL, rename + nesting, skip, omit_default, extra forbid) x 5 "
                "inputs (all, required only, a required key missing, an ill-typed value, an extra key) + dump + round trip, "
                "compared across kinds; converters between every ordered pair of kinds (a third of them in the quick tier); "
                "reported shape vs Model/Kinds.v per (kind, model); as_list is compared separately because field order is where "
                "kinds may legitimately differ; non-trivial = one logical model",
        "samples": samples or [{"note": "none"}],
        "distribution": stats,
    })
    as_list_order(rep, r)
    import loadgen as lg
    lg.proof_problems(rep, PID, proof)


REC_SRC = {
    "dataclass": "from dataclasses import dataclass\n@dataclass\nclass Node:\n    name: str\n    parent: Optional['Node']\n    children: List['Node']\n",
    "named_tuple": "class Node(NamedTuple):\n    name: str\n    parent: Optional['Node']\n    children: List['Node']\n",
    "typed_dict": "class Node(TypedDict):\n    name: str\n    parent: Optional['Node']\n    children: List['Node']\n",
    "attrs": "import attrs\n@attrs.define\nclass Node:\n    name: str\n    parent: Optional['Node']\n    children: List['Node']\n",
    "pydantic": "import pydantic\nclass Node(pydantic.BaseModel):\n    name: str\n    parent: Optional['Node']\n    children: List['Node']\nNode.model_rebuild()\n",
}


def recursive_block(rep):
    """the self-referencing logical model Node(name, parent: Optional['Node'], children: List['Node']) in every kind that can
    spell it: same loads, same dumps, same errors"""
    import sys
    import types

    from adaptix import DebugTrail, Retort
    good = {"name": "a", "parent": {"name": "p", "parent": None, "children": []},
            "children": [{"name": "c", "parent": None, "children": [{"name": "g", "parent": None, "children": []}]}]}
    bad = {"name": "a", "parent": None, "children": [{"name": "c", "parent": {"name": 5, "parent": None, "children": []}, "children": []}]}

    def plain(kind, o):
        if o is None:
            return None
        get = (lambda k: o[k]) if kind == "typed_dict" else (lambda k: getattr(o, k))
        return {"name": get("name"), "parent": plain(kind, get("parent")), "children": [plain(kind, c) for c in get("children")]}
    n = 0
    res = {}
    for kind, src in REC_SRC.items():
        m = types.ModuleType(f"verif_c17_rec_{kind}")
        sys.modules[m.__name__] = m
        try:
            exec("from typing import List, NamedTuple, Optional, TypedDict\n" + src, m.__dict__)  # noqa: S102
        except Exception as e:  # noqa: BLE001
            rep.violation(f"materialise:recursive:{kind}", "harness-error", {"what": f"{type(e).__name__}: {e}"})
            continue
        out = {}
        for mode in (DebugTrail.ALL, DebugTrail.DISABLE):
            rt = Retort(debug_trail=mode, strict_coercion=True)
            o = outcome(lambda: rt.load(good, m.Node))
            n += 3
            out[f"load:{mode.name}"] = (o[0], plain(kind, o[1]) if o[0] == "ok" else o[1])
            out[f"dump:{mode.name}"] = outcome(lambda: rt.dump(o[1], m.Node)) if o[0] == "ok" else ("skipped", None)
            out[f"bad:{mode.name}"] = outcome(lambda: rt.load(bad, m.Node))
        res[kind] = out
    kinds = list(res)
    for k in kinds[1:]:
        for key in res[kinds[0]]:
            x, y = res[kinds[0]][key], res[k][key]
            if x != y:
                rep.violation(f"kinds-differ:recursive:{key.split(':')[0]}:{kinds[0]}-vs-{k}", "property-violated",
                              {"what": f"recursive model Node, {key}: {kinds[0]} gives {x!r}, {k} gives {y!r}"})
    exp = ("ok", good)
    for k in kinds:
        if res[k]["load:ALL"] != exp or res[k]["dump:ALL"] != exp:
            rep.violation(f"recursive:{k}", "property-violated",
                          {"what": f"recursive model Node as {k}: load gives {res[k]['load:ALL']!r}, dump gives {res[k]['dump:ALL']!r}"})
    return n


def paths_of(dumped, sent):
    """field name -> path of outer keys, read off a dump of distinct sentinels (fields that are not dumped are missing)"""
    inv = {repr(v): k for k, v in sent.items()}
    out = {}

    def walk(x, path):
        if isinstance(x, dict):
            for k, v in x.items():
                walk(v, (*path, k))
        elif repr(x) in inv:
            out[inv[repr(x)]] = path
    walk(dumped, ())
    return out


def place_all(paths, data):
    out = {}
    for name, v in data.items():
        path = paths.get(name, (name,))
        cur = out
        for k in path[:-1]:
            cur = cur.setdefault(k, {})
        cur[path[-1]] = v
    return out


def compare_kinds(rep, per_kind, lm, rname, mode, info):
    kinds = list(per_kind)
    base = kinds[0]
    skipped = {f["name"] for f in lm if not f["required"]} if rname == "skip" else set()
    if skipped:
        skipped = {next(f["name"] for f in lm if not f["required"])}
    for k in kinds[1:]:
        a, b = per_kind[base], per_kind[k]
        for key in sorted(set(a) | set(b)):
            x, y = a.get(key), b.get(key)
            if (x is None or y is None) and key != "creation":
                continue
            nx, ny = norm(x, y, skipped), norm(y, x, skipped)
            if rname == "omit" and key == "dump" and "typed_dict" in (base, k) and nx != ny and \
                    isinstance(nx, tuple) and isinstance(ny, tuple) and nx[0] == ny[0] == "ok" and isinstance(nx[1], dict) and isinstance(ny[1], dict):
                # documented limitation: a TypedDict has no defaults, so omit_default has nothing to omit there; the other
                # kind may leave out exactly the optional fields that hold their default
                td, other_ = (nx[1], ny[1]) if base == "typed_dict" else (ny[1], nx[1])
                dflt = {f["name"]: f["default"] for f in lm if not f["required"]}
                extra = set(td) - set(other_)
                if set(other_) <= set(td) and all(e in dflt and td[e] == dflt[e] for e in extra) and \
                        all(td[c] == other_[c] for c in other_):
                    continue
            if nx != ny:
                rep.violation(f"kinds-differ:{rname}:{key}:{base}-vs-{k}", "property-violated",
                              dict(info, recipe=rname, debug_trail=mode,
                                   what=f"{key} under name_mapping variant {rname!r}: {base} gives {x!r}, {k} gives {y!r}"))


def norm(x, other, skipped):
    """compare field values only where both kinds have one: a TypedDict has no defaults (an absent optional key stands for
    'the default'), and a skipped field keeps whatever the class itself does (SQLAlchemy defaults apply at flush time)"""
    if isinstance(x, tuple) and len(x) == 2 and isinstance(x[1], dict) and isinstance(other, tuple) and isinstance(other[1], dict) \
            and x[0] == "ok" == other[0] and all(isinstance(k, str) for k in x[1]):
        drop = {k for k, v in list(x[1].items()) + list(other[1].items()) if v == "<absent>"} | skipped
        if set(x[1]) == set(other[1]):
            return (x[0], {k: v for k, v in x[1].items() if k not in drop})
    return x


def reported_fields(cls):
    """'name:required' of the input shape adaptix reports, in its order, then the parameter kinds"""
    from adaptix._internal.provider.shape_provider import BUILTIN_SHAPE_PROVIDER  # noqa: F401
    from adaptix import Retort
    from adaptix._internal.provider.shape_provider import InputShapeRequest, OutputShapeRequest
    from adaptix._internal.provider.loc_stack_filtering import LocStack
    from adaptix._internal.provider.location import TypeHintLoc
    rt = Retort()
    mediator_req = InputShapeRequest(loc_stack=LocStack(TypeHintLoc(type=cls)))
    shape = rt._facade_provide(mediator_req, error_message="shape")
    ins = ",".join(f"{f.id}:{'r' if f.is_required else 'o'}" for f in shape.fields)
    params = ",".join(f"{p.name}:{p.kind.name}" for p in shape.params)
    oshape = rt._facade_provide(OutputShapeRequest(loc_stack=LocStack(TypeHintLoc(type=cls))), error_message="shape")
    outs = ",".join(f.id for f in oshape.fields)
    return f"in[{ins}] params[{params}] out[{outs}]"


def coq_kind(k):
    return {"dataclass": "KDataclass", "named_tuple": "KNamedTuple", "typed_dict": "KTypedDict", "attrs": "KAttrs",
            "pydantic": "KPydantic", "sqlalchemy": "KSqlAlchemy"}[k]


def coq_lm(lm):
    return coq_list([f"{{| l_name := {coq_str(f['name'])}; l_required := {'true' if f['required'] else 'false'}; "
                     f"l_kw_only := {'true' if f['kw_only'] else 'false'}; l_private := {'true' if f.get('private') else 'false'} |}}"
                     for f in lm])


def as_list_order(rep, r):
    """field order is where kinds may differ: as_list must follow the definition order in every kind"""
    from adaptix import Retort, name_mapping
    lm = [{"name": "zeta", "type": "int", "required": True, "default": None, "kw_only": False},
          {"name": "alpha", "type": "int", "required": True, "default": None, "kw_only": False},
          {"name": "gamma", "type": "int", "required": True, "default": None, "kw_only": False}]
    vals = {"zeta": 1, "alpha": 2, "gamma": 3}
    for k in KINDS:
        cls = materialise(k, lm)
        rt = Retort(recipe=[name_mapping(cls, as_list=True)])
        o = outcome(lambda: rt.dump(build(k, cls, lm, vals), cls))
        if o != ("ok", [1, 2, 3]):
            rep.violation(f"as-list-order:{k}", "property-violated",
                          {"what": f"as_list=True on the {k} twin of (zeta, alpha, gamma) dumps {o[1]!r} instead of the definition order "
                                   f"[1, 2, 3]", "kind": k})


def replay(rep, body):
    import sys
    print("recorded:", body.get("what"))
    lib.replay_by_rerun(sys.modules[__name__], rep, body)
