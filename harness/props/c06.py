"""C06 - debug_trail changes only error reporting, never what is accepted or returned.
Model: coq/Model/Load.v (three separately written mode interpreters), theorems: coq/Props/C06.v.
Every case is run under DISABLE / FIRST / ALL on the library and on the model, plus a direct oracle that compares the
library's three modes with each other.
"""
import random
import re

import lib
import loadgen as lg
from lib import CoqEval

PID = "C06"
MODES = ["DISABLE", "FIRST", "ALL"]


def retorts():
    return {(sc, m): lg.retort(sc, m) for sc in (True, False) for m in MODES}


def leaves(errstr):
    """flatten a printed error tree into (class, input) leaves, for the 'single error is among ALL's errors' oracle"""
    out = []
    depth = 0
    cur = ""
    body = errstr[3:] if errstr.startswith("ER ") else errstr

    def split_top(s):
        parts, d, cur = [], 0, ""
        for ch in s:
            if ch == "<":
                d += 1
            if ch == ">":
                d -= 1
            if ch == ";" and d == 0:
                parts.append(cur)
                cur = ""
            else:
                cur += ch
        if cur:
            parts.append(cur)
        return parts

    def walk(s):
        head, lt, rest = s.partition("<")
        cls = head.split("@")[0]
        if cls in ("U", "A") and lt:
            for p in split_top(rest[:-1]):
                walk(p)
        else:
            inp = head.partition("#")[2]
            # the length errors of fixed tuples report the datum (DISABLE) or its tuple() copy (FIRST/ALL)
            out.append((cls, "" if cls in ("NI", "EI") else inp))
    walk(body)
    return out


def has_iter(v):
    if v[0] == "VIter":
        return True
    if v[0] in ("VList", "VTuple", "VSet", "VFrozenSet"):
        return any(has_iter(x) for x in v[1])
    if v[0] == "VDict":
        return any(has_iter(a) or has_iter(b) for a, b in v[1])
    return False


def run(rep, tier, seed):
    proof = lib.proof_stage(rep, PID, extra_trusted=[
        "int()/float() parsing of str restricted to sign+ASCII digits, floats integer-valued (generators stay inside)"])
    r = random.Random(seed)
    tg = lg.TyGen(r, allow_user=True)
    vg = lg.ValGen(r)
    rts = retorts()
    n_types = 250 if tier == "quick" else 4000
    per = 8
    cases = []
    for _ in range(n_types):
        t = tg.ty(r.choice([1, 2, 2, 3, 3]))
        sc = r.random() < 0.65
        for _ in range(per):
            cases.append((t, sc, vg.value(t, sc)))
    coq_cases, expected = [], []
    agree_viol = 0
    for t, sc, v in cases:
        outs = [lg.run_load(rts[(sc, m)], t, v) for m in MODES]
        for mi, o in enumerate(outs):
            coq_cases.append((f"({mi}, {'true' if sc else 'false'}, {lg.coq_ty(t)}, {lg.coq_val(v)})", o))
            expected.append(o)
        # ---- direct oracle, independent of the model
        oks = [o.startswith("OK ") for o in outs]
        bad = None
        if len(set(oks)) != 1:
            bad = "modes disagree on acceptance"
        elif oks[0] and len(set(outs)) != 1:
            bad = "modes return different values"
        elif not oks[0] and all(o.startswith("ER ") for o in outs):
            allv = set(lg_leaf for lg_leaf in leaves(outs[2]))
            for mi in (0, 1):
                for leaf in leaves(outs[mi]):
                    if leaf[0] in ("P",):      # plain LoadError of the DISABLE union: stands for the union as a whole
                        continue
                    if leaf not in allv:
                        bad = f"error raised under {MODES[mi]} is not among the errors collected under ALL"
        elif any(o == "X" for o in outs):
            bad = None      # an escaping non-LoadError is C04's subject; acceptance still compared above
        if bad:
            agree_viol += 1
            # user code that raises a non-LoadError: the modes run it on different parts of the input (see known findings)
            kind = "user-code-raised-non-LoadError" if "TUser" in repr(t) and any(o == "X" for o in outs) else "other"
            rep.violation(f"modes:{bad}:{kind}", "property-violated",
                          {"what": bad, "type": t, "strict_coercion": sc, "datum": v,
                           "DISABLE": outs[0], "FIRST": outs[1], "ALL": outs[2]})
    n_dump = dump_modes_oracle(rep, r, tier)
    n_model = model_load_modes_oracle(rep, r, tier) + user_exn_model_oracle(rep, r, tier)
    seen_t, exo_types = set(), []
    for t, _, _ in cases:
        if repr(t) not in seen_t:
            seen_t.add(repr(t))
            exo_types.append(t)
    n_model += exotic_modes_oracle(rep, r, tier, exo_types[:120 if tier == "quick" else 1500])
    header = lg.SHOW_HEADER + ("Definition run (c : nat * bool * ty * pv) : string := "
                               "match c with (m, sc, t, v) => show_res (load BOOM (md_of m) sc t v) end.\n")
    ce = CoqEval(PID, header, "run", shard=500)
    badm = ce.compare(coq_cases)
    for k, err in ce.errors:
        rep.violation("coq-eval-failed", "correspondence-diff", {"shard": k, "coq_error": err}, no_input=True)
    seen = set()
    for idx, got in badm:
        t, sc, v = cases[idx // 3]
        sig = f"diff:{MODES[idx % 3]}:{t[0]}:{expected[idx].split('@')[0][:6]}"
        if sig in seen or len(seen) >= 6:
            continue
        seen.add(sig)
        rep.violation(sig, "correspondence-diff",
                      {"type": t, "strict_coercion": sc, "datum": v, "mode": MODES[idx % 3],
                       "library": expected[idx], "model": got})
    rep.cov.update({
        "evaluations": len(coq_cases) + n_dump + n_model,
        "distinct_nontrivial": len({repr(c) for c in cases if c[0][0] not in ("TInt", "TStr", "TBool", "TNone", "TAny", "TFloat")}),
        "rule": "types of depth <= 3 over int/float/bool/str/None/Any/Literal, list/set/frozenset/tuple[...]/abstract "
                "collections (random spellings), fixed tuples, dict/Mapping, Optional, Union; 8 data per type generated from "
                "the type with 18% junk from a look-alike pool (bools/ints/floats/str/bytes, wrong containers, one-shot "
                "iterators, foreign objects, 10**400); each case under 3 debug modes, strict or lax per type; non-trivial = "
                "compound type; distinct by structure; plus model dumpers (TypedDict / dataclass scenarios) and model loaders (3 "
                "dataclasses with optional-first / nested / listed fields x 5 name_mapping layouts x mutated inputs: absent, None, "
                "ill-typed, unknown keys) compared across the three modes by a direct oracle",
        "samples": [{"type": cases[i][0], "strict": cases[i][1], "datum": cases[i][2],
                     "library": expected[3 * i:3 * i + 3]} for i in (0, 1)],
        "distribution": {"ok": sum(e.startswith("OK") for e in expected), "load_error": sum(e.startswith("ER") for e in expected),
                         "other_exception": sum(e.startswith("X") for e in expected),
                         "mode_disagreements": agree_viol, "model_vs_library_mismatches": len(badm)},
    })
    if not proof["ok"]:
        found = bool(rep.violations)
        for kind, text in proof["problems"]:
            rep.violation(f"{kind}-broken", "proof-broken" if kind == "proof" else kind,
                          {"what": f"{kind} stage failed for {PID}", "text": text}, no_input=not found)


def dump_modes_oracle(rep, r, tier):
    """dumping: what is accepted and returned must not depend on debug_trail either.  Model dumpers (dataclass, TypedDict
    with optional keys, nested) whose field dumpers succeed, fail with KeyError / AttributeError / ValueError, or whose
    values lack a required key: the three modes must all succeed with equal results or all fail."""
    from dataclasses import dataclass
    from typing import Any, List, Optional, TypedDict

    from adaptix import DebugTrail, Retort, dumper

    Inner = TypedDict("Inner", {"x": int})
    InnerOpt = TypedDict("InnerOpt", {"x": int, "y": int}, total=False)
    Outer = TypedDict("Outer", {"a": Inner, "b": int}, total=False)
    OuterReq = TypedDict("OuterReq", {"a": Inner, "b": int})
    OuterList = TypedDict("OuterList", {"items": List[Inner], "o": InnerOpt}, total=False)

    @dataclass
    class DC:
        a: Any
        b: int = 1

    class Tagged:
        pass

    def raising(exc):
        def f(x):
            raise exc("boom")
        return f

    n = 0
    scenarios = [
        (Outer, {"a": {}, "b": 1}, []), (Outer, {"a": {"x": 1}, "b": 1}, []), (Outer, {"b": 1}, []), (Outer, {}, []),
        (OuterReq, {"a": {}, "b": 1}, []), (OuterReq, {"b": 1}, []), (OuterReq, {"a": {"x": 2}, "b": 1}, []),
        (OuterList, {"items": [{"x": 1}, {}], "o": {}}, []), (OuterList, {"items": [], "o": {"y": 2}}, []), (OuterList, {"o": {}}, []),
        (InnerOpt, {"x": 1}, []), (InnerOpt, {}, []),
    ]
    for exc in (KeyError, AttributeError, ValueError, TypeError, IndexError, LookupError):
        scenarios += [
            (Outer, {"a": {"x": 1}, "b": 1}, [dumper(int, raising(exc))]),
            (Outer, {"a": {"x": 1}}, [dumper(int, raising(exc))]),
            (InnerOpt, {"y": 5}, [dumper(int, raising(exc))]),
            (DC, DC(Tagged(), 2), [dumper(Tagged, raising(exc))]),
            (DC, DC([Tagged()], 2), [dumper(Tagged, raising(exc))]),
        ]
    for tp, val, recipe in scenarios:
        outs = []
        for m in MODES:
            n += 1
            rt = Retort(recipe=recipe, debug_trail=getattr(DebugTrail, m))
            try:
                outs.append(("ok", repr(rt.dump(val, tp))))
            except Exception as e:  # noqa: BLE001
                outs.append(("fail", type(e).__name__))
        kinds = {o[0] for o in outs}
        if len(kinds) > 1 or (kinds == {"ok"} and len({o[1] for o in outs}) > 1):
            rep.violation(f"dump-modes:{getattr(tp, '__name__', tp)}", "property-violated",
                          {"what": f"dumping {val!r} as {getattr(tp, '__name__', tp)}: the three debug modes disagree on acceptance / result",
                           "DISABLE": outs[0], "FIRST": outs[1], "ALL": outs[2]})
    return n


def _exc_leaves(e):
    subs = getattr(e, "exceptions", None)
    if subs:
        out = []
        for x in subs:
            out += _exc_leaves(x)
        return out
    extra = ""
    for attr in ("fields", "bad_type", "expected_type"):
        if hasattr(e, attr):
            extra += f"|{attr}={getattr(e, attr)!r}"
    return [(type(e).__name__, repr(getattr(e, "input_value", "<none>")) + extra)]


def model_load_modes_oracle(rep, r, tier):
    """loading models: acceptance and result must not depend on debug_trail; the DISABLE / FIRST error is one of ALL's.
    Optional fields first / last, explicit None, absent keys, ill-typed values, unknown keys, nested and listed models,
    under several name_mapping layouts."""
    import copy
    from dataclasses import dataclass, field
    from typing import Any, Dict, List, Optional

    from adaptix import DebugTrail, ExtraForbid, ExtraSkip, Retort, name_mapping
    from adaptix.load_error import LoadError

    @dataclass
    class OptFirst:
        timeout: Optional[int] = 30
        retries: int = 3
        name: str = "n"

    @dataclass
    class ReqThenOpt:
        ident: int
        level: Optional[int] = 5
        tags: List[int] = field(default_factory=list)
        rest: Dict[str, Any] = field(default_factory=dict)

    @dataclass
    class Nest:
        head: OptFirst
        items: List[ReqThenOpt] = field(default_factory=list)
        opt: Optional[ReqThenOpt] = None

    perfect = {
        OptFirst: {"timeout": 1, "retries": 2, "name": "x"},
        ReqThenOpt: {"ident": 1, "level": 2, "tags": [1, 2], "rest": {}},
        Nest: {"head": {"timeout": 1, "retries": 2, "name": "x"}, "items": [{"ident": 1, "level": 2, "tags": [3]}, {"ident": 4}],
               "opt": {"ident": 9}},
    }
    recipes = [
        ("default", []),
        ("forbid", [name_mapping(OptFirst, extra_in=ExtraForbid()), name_mapping(ReqThenOpt, extra_in=ExtraForbid())]),
        ("skip", [name_mapping(OptFirst, extra_in=ExtraSkip())]),
        ("collect", [name_mapping(ReqThenOpt, extra_in="rest")]),
        ("nested-map", [name_mapping(OptFirst, map={"timeout": ("cfg", "t"), "retries": ("cfg", "r")}),
                        name_mapping(ReqThenOpt, map={"level": ("m", "lvl")})]),
    ]
    junk = [None, "s", 1.5, [], {}, [None], {"k": None}, True, 0]

    def paths(d, prefix=()):
        out = []
        if isinstance(d, dict):
            for k, v in d.items():
                out.append(prefix + (k,))
                out += paths(v, prefix + (k,))
        elif isinstance(d, list):
            for i, v in enumerate(d):
                out.append(prefix + (i,))
                out += paths(v, prefix + (i,))
        return out

    def mutate(d):
        d = copy.deepcopy(d)
        for _ in range(r.choice([1, 1, 2, 3])):
            ps = paths(d)
            if not ps:
                break
            p = r.choice(ps)
            node = d
            for k in p[:-1]:
                node = node[k]
            c = r.random()
            if c < 0.35:
                node[p[-1]] = None if r.random() < 0.5 else copy.deepcopy(r.choice(junk))
            elif c < 0.6:
                del node[p[-1]]
            elif isinstance(node, dict):
                node[r.choice(["unk", "zz", "timeout_", "t"])] = copy.deepcopy(r.choice(junk))
            else:
                node.append(copy.deepcopy(r.choice(junk)))
        return d

    n = 0
    reported = set()
    n_mut = 60 if tier == "quick" else 600
    for cname, recipe in recipes:
        for sc in (True, False):
            rts = [Retort(recipe=recipe, strict_coercion=sc, debug_trail=getattr(DebugTrail, m)) for m in MODES]
            for cls, good in perfect.items():
                data = [good, {}] + [mutate(good) for _ in range(n_mut)]
                if cname == "nested-map":
                    def relocate(x):
                        x = copy.deepcopy(x)
                        if isinstance(x, dict) and ("timeout" in x or "retries" in x) and "name" in x:
                            cfg = {}
                            if "timeout" in x:
                                cfg["t"] = x.pop("timeout")
                            if "retries" in x:
                                cfg["r"] = x.pop("retries")
                            x["cfg"] = cfg
                        return x
                    data += [relocate(x) for x in data[:20]] + [{"cfg": None}, {"cfg": {"t": None}}, {"cfg": {"t": None, "r": 1}, "name": "q"}]
                for d in data:
                    outs = []
                    for rt in rts:
                        n += 1
                        try:
                            outs.append(("ok", rt.load(copy.deepcopy(d), cls)))
                        except LoadError as e:
                            outs.append(("le", e))
                        except Exception as e:  # noqa: BLE001
                            outs.append(("x", e))
                    kinds = [o[0] for o in outs]
                    bad = None
                    if "x" in kinds:
                        continue       # C04's subject
                    if len(set(kinds)) != 1:
                        bad = "modes disagree on acceptance"
                    elif kinds[0] == "ok" and not (outs[0][1] == outs[1][1] == outs[2][1]):
                        bad = "modes return different values"
                    elif kinds[0] == "le":
                        allv = set(_exc_leaves(outs[2][1]))
                        for mi in (0, 1):
                            for leaf in _exc_leaves(outs[mi][1]):
                                if leaf[0] == "LoadError":
                                    continue
                                if leaf not in allv:
                                    bad = f"error raised under {MODES[mi]} is not among the errors collected under ALL"
                    if bad and (cname, cls.__name__, bad) not in reported:
                        reported.add((cname, cls.__name__, bad))
                        rep.violation(f"model-modes:{bad}:{cname}:{cls.__name__}", "property-violated",
                                      {"what": f"loading a model: {bad}", "model": cls.__name__, "name_mapping": cname, "strict_coercion": sc,
                                       "datum": repr(d), "DISABLE": repr(outs[0])[:300], "FIRST": repr(outs[1])[:300], "ALL": repr(outs[2])[:300]})
    return n


def exotic_modes_oracle(rep, r, tier, types):
    """data the Gallina value type does not represent (instances of subclasses of str / int / list / dict / tuple, enum members
    with a data mixin, views, one-shot iterables): the three modes must agree on acceptance and on the value"""
    rts = retorts()
    exo = lg.exotic_values()
    n = 0
    reported = set()
    for t in types:
        if "TUser" in repr(t):
            continue
        in_union = "TUnion" in repr(t)
        for sc in (True, False):
            for name, make in exo:
                if in_union and name in lg.ONE_SHOT:
                    continue        # a union case that fails has already consumed (part of) a one-shot iterable: not a value
                outs = [lg.run_exotic(rts[(sc, m)], t, make) for m in MODES]
                n += 3
                kinds = [o[0] for o in outs]
                bad = None
                if "x" in kinds and len(set(kinds)) == 1:
                    continue           # C04's subject
                if len({k == "ok" for k in kinds}) != 1:
                    bad = "modes disagree on acceptance"
                elif kinds[0] == "ok":
                    # a fresh datum is built per call: objects compared by identity differ only in their address
                    canon = [re.sub(r"( at )?0x[0-9a-f]+", "", repr(o[1])) + "|" + type(o[1]).__name__ for o in outs]
                    if len(set(canon)) != 1:
                        bad = "modes return different values"
                sig = f"exotic-modes:{bad}:{name.split(':')[0]}:{t[0]}"
                if bad and sig not in reported and len(reported) < 8:
                    reported.add(sig)
                    rep.violation(sig, "property-violated",
                                  {"what": f"{bad} for a datum outside the model's value type", "type": t, "py_type": repr(lg.py_ty(t)),
                                   "strict_coercion": sc, "datum": name, "datum_repr": repr(make())[:120],
                                   "DISABLE": repr(outs[0])[:200], "FIRST": repr(outs[1])[:200], "ALL": repr(outs[2])[:200]})
    return n


def user_exn_model_oracle(rep, r, tier):
    """user code (a loader given in the recipe) that raises a non-LoadError inside a MODEL that is a union case / optional /
    container element: the three modes must still agree on whether loading succeeds.  The generator labels each case by
    the kind of the first failing field in field order ('exn' = the user loader raised ValueError, 'le' = a LoadError)."""
    from dataclasses import dataclass
    from typing import Dict, List, Optional, Union

    from adaptix import DebugTrail, Retort, loader
    from adaptix.load_error import ValueLoadError

    class W:
        def __init__(self, v):
            self.v = v

        def __eq__(self, o):
            return isinstance(o, W) and o.v == self.v

        def __repr__(self):
            return f"W({self.v!r})"

    def load_w(d):
        if d == "boom":
            raise ValueError("boom")
        if d == "bad":
            raise ValueLoadError("bad", d)
        return W(d)

    @dataclass
    class A:
        a: W

    @dataclass
    class B:
        a: str

    @dataclass
    class C:
        x: W
        y: W
        a: str = "dflt"

    @dataclass
    class N:
        inner: A
        a: str = "n"

    rts = [Retort(recipe=[loader(W, load_w)], debug_trail=getattr(DebugTrail, m)) for m in MODES]
    vals = ["boom", "bad", "fine"]
    cases = []      # (label, type, datum, first_bad)
    for v in vals:
        fb = {"boom": "exn", "bad": "le", "fine": "none"}[v]
        d = {"a": v}
        cases += [("Union[A,B]", Union[A, B], d, fb), ("Optional[A]", Optional[A], d, fb), ("A", A, d, fb),
                  ("List[Union[A,B]]", List[Union[A, B]], [d], fb), ("Dict[str,Union[A,B]]", Dict[str, Union[A, B]], {"k": d}, fb),
                  ("Union[N,B]", Union[N, B], {"inner": d, "a": "s"}, fb), ("Union[List[A],B]", Union[List[A], B], [d], fb)]
        for v2 in vals:
            fb2 = fb if fb != "none" else {"boom": "exn", "bad": "le", "fine": "none"}[v2]
            d2 = {"x": v, "y": v2, "a": "s"}
            cases += [("Union[C,B]", Union[C, B], d2, fb2), ("C", C, d2, fb2), ("List[Union[C,B]]", List[Union[C, B]], [d2, d2], fb2)]
    n = 0
    reported = set()
    for label, tp, d, fb in cases:
        outs = []
        for rt in rts:
            n += 1
            try:
                outs.append(("ok", rt.load(d, tp)))
            except Exception as e:  # noqa: BLE001
                outs.append(("fail", type(e).__name__))
        kinds = [o[0] for o in outs]
        bad = None
        if len(set(kinds)) != 1:
            bad = "modes disagree on acceptance"
        elif kinds[0] == "ok" and not (outs[0][1] == outs[1][1] == outs[2][1]):
            bad = "modes return different values"
        sig = f"user-exn-model:{fb}-first"
        if bad and sig not in reported:
            reported.add(sig)
            rep.violation(sig, "property-violated",
                          {"what": f"a user loader raises ValueError('boom') / ValueLoadError('bad') inside a model: {bad}",
                           "type": label, "datum": repr(d), "first_failing_field": fb,
                           "DISABLE": repr(outs[0]), "FIRST": repr(outs[1]), "ALL": repr(outs[2])})
    return n


def detuple(x):
    if isinstance(x, list):
        if x and isinstance(x[0], str) and x[0][:1] in ("T", "V", "L", "K") and x[0][1:2].isalpha():
            return tuple(detuple(y) for y in x)
        return [detuple(y) for y in x]
    return x


def replay(rep, body):
    if body.get("signature", "").startswith(("model-modes:", "dump-modes:")):
        import sys
        print("recorded:", body.get("what"), body.get("datum"))
        lib.replay_by_rerun(sys.modules[__name__], rep, body)
        return
    if "type" not in body:
        print("replay names a broken obligation, not an input:", body.get("what"))
        rep.violation(body["signature"], body["kind"], body, no_input=True)
        return
    t, v = detuple(body["type"]), detuple(body["datum"])
    if v and v[0] == "VDict":
        v = ("VDict", [tuple(p) for p in v[1]])
    rts = retorts()
    outs = [lg.run_load(rts[(body["strict_coercion"], m)], t, v) for m in MODES]
    print(dict(zip(MODES, outs)))
    oks = [o.startswith("OK ") for o in outs]
    if len(set(oks)) != 1 or (oks[0] and len(set(outs)) != 1) or \
            ("mode" in body and outs[MODES.index(body["mode"])] != body.get("model")):
        rep.violation(body["signature"], body["kind"], body)
