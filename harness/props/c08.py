"""C08 - models are built by their own constructor; omitted fields get the true default.
Model: coq/Model/Ctor.v (+ CtorShow.v printers), theorems: coq/Props/C08.v.

Two correspondences with the Coq model and two direct oracles on the library:
 * literal rendering: for generated default values (look-alikes of 0/1/True/False/None, floats, str/bytes with hostile
   characters, nested containers, range/slice, builtins, opaque objects) the text returned by get_literal_expr must be
   the text the model renders, and evaluating it must give back an object of the same type and value;
 * constructor call: for generated shapes (dataclass / attrs / plain __init__; positional-only, positional-or-keyword,
   keyword-only; required, defaulted by value, by factory, by a default only the class knows; skipped fields) and every
   subset of optional fields present, the raw call received by the class (logged by a metaclass the harness defines),
   the attributes of the result and the number of factory calls must be what the model computes;
 * oracle: the result equals (value and exact type, field by field) the object built by calling the class directly
   with the present values, the class was called exactly once, __post_init__ ran, two loads share no default container.
"""
import builtins
import enum
import itertools
import math
import random
from dataclasses import MISSING, dataclass, field, make_dataclass
from decimal import Decimal
from fractions import Fraction
from typing import Any

import lib
from lib import CoqEval, coq_list

PID = "C08"


class IE(enum.IntEnum):
    Z0 = 0
    Z1 = 1
    Z2 = 2
    Z3 = 3


class MyInt(int):
    pass


LOOK = [lambda z: Decimal(z), lambda z: Fraction(z), lambda z: complex(z), lambda z: IE(z % 4), lambda z: MyInt(z)]
LOOK_TYPES = [Decimal, Fraction, complex, IE, MyInt]
BUILTINS = [len, int, print, ValueError, dict]


class Opaque:
    def __init__(self, i):
        self.i = i

    def __repr__(self):
        return f"Opaque({self.i})"


class Point(__import__("typing").NamedTuple):
    x: int = 0
    y: int = 0


class MyList(list):
    pass


class MyStr(str):
    pass


class MyFrozenset(frozenset):
    pass


class MyBytes(bytes):
    pass


class MyDict(dict):
    pass


# opaque objects: known to the model by identity only.  Most of them are instances of subclasses of the builtin
# containers and scalars - equal to a literal, but not of its type
OBJS = [Opaque(0), Opaque(1), Point(0, 0), __import__("collections").OrderedDict(a=1), MyList([1]), MyStr("x"),
        MyFrozenset({1}), MyBytes(b"x"), MyDict(), Point(1, 2)]


class Made:
    def __init__(self, f, k):
        self.f, self.k = f, k

    def __repr__(self):
        return f"Made({self.f},{self.k})"


class Hidden:
    def __init__(self, i):
        self.i = i


STATE = {"calls": 0, "log": [], "post": 0}


def user_factory(f):
    def make():
        k = STATE["calls"]
        STATE["calls"] += 1
        return Made(f, k)
    make.__name__ = f"factory{f}"
    return make


FACTORIES = [user_factory(i) for i in range(4)]


# ----------------------------------------------------------------------------------------------------------------------
# values: abstract form -> Python object / Coq term / canonical text

def gen_val(r, depth=2, hashable=False):
    kinds = ["int", "int", "bool", "none", "float", "str", "bytes", "look", "look", "builtin", "obj", "ell", "ni", "tuple",
             "range", "fset"]
    if not hashable:
        kinds += ["list", "dict", "set", "slice", "bytearray", "list", "tuple"]
    if depth <= 0:
        kinds = [k for k in kinds if k not in ("list", "tuple", "dict", "slice")]
    k = r.choice(kinds)
    if k == "int":
        return ("int", r.choice([0, 1, -1, 2, 7, -5, 10 ** 20, -(10 ** 18), 255, r.randint(-1000, 1000)]))
    if k == "bool":
        return ("bool", r.random() < 0.5)
    if k in ("none", "ell", "ni"):
        return (k,)
    if k == "float":
        return ("float", r.choice([0, 1, 2, 3, -1, -2, -3, 5, 200, -7, "nan", "inf", "-inf", "-0", r.randint(-10 ** 6, 10 ** 6)]))
    if k == "str":
        n = r.choice([0, 1, 1, 2, 3, 6])
        return ("str", [r.choice([39, 34, 92, 10, 13, 9, 0, 7, 27, 127, 123, 125, 36, 37, 97, 98, 32, 35, r.randint(1, 127)]) for _ in range(n)])
    if k in ("bytes", "bytearray"):
        n = r.choice([0, 1, 2, 4])
        return (k, [r.choice([39, 34, 92, 10, 13, 9, 0, 127, 128, 255, 97, 32, r.randint(0, 255)]) for _ in range(n)])
    if k == "look":
        c = r.randrange(len(LOOK))
        z = r.choice([0, 1, 1, 0, 2, 3]) if c == 3 else r.choice([0, 1, 1, 0, 2, -1, 5])
        return ("look", c, z)
    if k == "builtin":
        return ("builtin", r.randrange(len(BUILTINS)))
    if k == "obj":
        return ("obj", r.randrange(len(OBJS)))
    if k in ("list", "tuple"):
        n = r.choice([0, 1, 1, 2, 3])
        return (k, [gen_val(r, depth - 1, hashable and k == "tuple") for _ in range(n)])
    if k in ("set", "fset"):
        return (k, sorted(set(r.randint(-5, 9) for _ in range(r.choice([0, 1, 2, 4])))))
    if k == "dict":
        items, seen = [], []
        for _ in range(r.choice([0, 1, 2, 3])):
            key = gen_val(r, depth - 1, hashable=True)
            pk = py_val(key)
            try:
                if any(pk == s for s in seen) or pk != pk:
                    continue
                hash(pk)
            except TypeError:
                continue
            seen.append(pk)
            items.append((key, gen_val(r, depth - 1)))
        return ("dict", items)
    if k == "range":
        return ("range", r.randint(-3, 5), r.randint(-3, 12), r.choice([1, 2, 3, -1, -2]))
    if k == "slice":
        return ("slice", gen_val(r, 0), gen_val(r, 0), gen_val(r, 0))
    raise AssertionError(k)


def py_val(v):
    k = v[0]
    if k == "int":
        return v[1]
    if k == "bool":
        return v[1]
    if k == "none":
        return None
    if k == "ell":
        return Ellipsis
    if k == "ni":
        return NotImplemented
    if k == "float":
        return {"nan": math.nan, "inf": math.inf, "-inf": -math.inf, "-0": -0.0}.get(v[1]) if isinstance(v[1], str) else v[1] / 2
    if k == "str":
        return "".join(map(chr, v[1]))
    if k == "bytes":
        return bytes(v[1])
    if k == "bytearray":
        return bytearray(v[1])
    if k == "look":
        return LOOK[v[1]](v[2])
    if k == "builtin":
        return BUILTINS[v[1]]
    if k == "obj":
        return OBJS[v[1]]
    if k == "list":
        return [py_val(x) for x in v[1]]
    if k == "tuple":
        return tuple(py_val(x) for x in v[1])
    if k == "set":
        return set(v[1])
    if k == "fset":
        return frozenset(v[1])
    if k == "dict":
        return {py_val(a): py_val(b) for a, b in v[1]}
    if k == "range":
        return range(v[1], v[2], v[3])
    if k == "slice":
        return slice(py_val(v[1]), py_val(v[2]), py_val(v[3]))
    raise AssertionError(k)


def z(n):
    return f"({n})%Z"


def coq_val(v):
    k = v[0]
    if k == "int":
        return f"VInt {z(v[1])}"
    if k == "bool":
        return f"VBool {'true' if v[1] else 'false'}"
    if k == "none":
        return "VNone"
    if k == "ell":
        return "VEllipsis"
    if k == "ni":
        return "VNotImpl"
    if k == "float":
        if isinstance(v[1], str):
            return "VFloat " + {"nan": "FNan", "inf": "FPosInf", "-inf": "FNegInf", "-0": "FNegZero"}[v[1]]
        return f"VFloat (FHalf {z(v[1])})"
    if k in ("str", "bytes", "bytearray"):
        return {"str": "VStr", "bytes": "VBytes", "bytearray": "VByteArray"}[k] + " " + coq_list([f"{c}%N" for c in v[1]])
    if k == "look":
        return f"VLook {v[1]} {z(v[2])}"
    if k == "builtin":
        return f"VBuiltin {v[1]}"
    if k == "obj":
        return f"VObj {v[1]}"
    if k in ("list", "tuple"):
        return ("VList " if k == "list" else "VTuple ") + coq_list([f"({coq_val(x)})" if " " in coq_val(x) else coq_val(x) for x in v[1]])
    if k in ("set", "fset"):
        return ("VSet " if k == "set" else "VFrozenset ") + coq_list([z(x) for x in v[1]])
    if k == "dict":
        return "VDict " + coq_list([f"({coq_val(a)}, {coq_val(b)})" for a, b in v[1]])
    if k == "range":
        return f"VRange {z(v[1])} {z(v[2])} {z(v[3])}"
    if k == "slice":
        return "VSlice " + " ".join(f"({coq_val(x)})" for x in v[1:])
    raise AssertionError(k)


def show_py(o):
    """canonical, type-revealing text of a Python object (the same format as CtorShow.show_val)"""
    t = type(o)
    for i, x in enumerate(OBJS):
        if o is x:
            return f"O{i}"
    if t is int:
        return f"i{o}"
    if t is bool:
        return "True" if o else "False"
    if o is None:
        return "None"
    if o is Ellipsis:
        return "..."
    if o is NotImplemented:
        return "NI"
    if t is float:
        if math.isnan(o):
            return "fnan"
        if math.isinf(o):
            return "finf" if o > 0 else "f-inf"
        if o == 0 and math.copysign(1, o) < 0:
            return "f-0"
        if o * 2 == int(o * 2):
            return f"f{int(o * 2)}"
        return f"f?{o!r}"
    if t is str:
        return "s[" + ".".join(str(ord(c)) for c in o) + "]"
    if t is bytes:
        return "b[" + ".".join(map(str, o)) + "]"
    if t is bytearray:
        return "ba[" + ".".join(map(str, o)) + "]"
    if t in LOOK_TYPES:
        c = LOOK_TYPES.index(t)
        val = o.real if t is complex else o
        if val == int(val) and (t is not complex or o.imag == 0):
            return f"L{c}:{int(val)}"
        return f"L{c}?{o!r}"
    if t is list:
        return "[" + ",".join(map(show_py, o)) + "]"
    if t is tuple:
        return "(" + ",".join(map(show_py, o)) + ")"
    if t is set or t is frozenset:
        if all(type(x) is int for x in o):
            return ("set{" if t is set else "fset{") + ",".join(str(x) for x in sorted(o)) + "}"
        return ("set?{" if t is set else "fset?{") + ",".join(sorted(map(show_py, o))) + "}"
    if t is dict:
        return "{" + ",".join(f"{show_py(a)}:{show_py(b)}" for a, b in o.items()) + "}"
    if t is range:
        return f"r({o.start},{o.stop},{o.step})"
    if t is slice:
        return f"sl({show_py(o.start)},{show_py(o.stop)},{show_py(o.step)})"
    if t is Opaque:
        return f"O{o.i}"
    if t is Made:
        return f"M{o.f}:{o.k}"
    if t is Hidden:
        return f"H{o.i}"
    for i, b in enumerate(BUILTINS):
        if o is b:
            return f"B{i}"
    return f"?{t.__name__}:{o!r}"


# ----------------------------------------------------------------------------------------------------------------------
# shapes

class LogMeta(type):
    def __call__(cls, *a, **kw):
        STATE["log"].append((a, kw))
        return super().__call__(*a, **kw)


class Base(metaclass=LogMeta):
    pass


KINDS = ["PosOnly", "PosOrKw", "KwOnly"]
# loaded values that a sloppy presence test confuses with "absent"
DATA_VALUES = [("none",), ("bool", False), ("int", 0), ("list", []), ("str", []), ("dict", []), ("ell",), ("ni",), ("tuple", [])]


def gen_shape(r, model_kind):
    """list of dicts(kind, default, skipped) obeying Python's and adaptix's rules for that model kind"""
    n = r.choice([1, 2, 3, 3, 4, 4, 5])
    kinds = sorted(r.choice([0, 1, 1, 1, 2] if model_kind == "init" else [1, 1, 2]) for _ in range(n))
    flds = []
    seen_optional = False
    # in 30% of the models all value defaults are look-alikes of ONE number (1, True, 1.0, Decimal(1), Fraction(1), IE(1),
    # MyInt(1), 1+0j, and containers of them): equal and hash-equal, so anything keyed by the value confuses them
    family = r.choice([0, 1, 1, 2]) if r.random() < 0.3 else None

    def family_val():
        c = r.randrange(5)
        base = [("int", family), ("bool", bool(family)) if family < 2 else ("int", family), ("float", family),
                ("look", r.randrange(len(LOOK)), family), ("look", r.randrange(len(LOOK)), family)][c]
        w = r.random()
        if w < 0.15:
            return ("tuple", [base])
        if w < 0.25 and model_kind != "dataclass":
            return ("list", [base])
        return base
    for i, k in enumerate(kinds):
        choices = ["none", "value", "value"]
        if model_kind in ("dataclass", "attrs"):
            choices += ["factory", "userfactory"]
        if model_kind == "attrs":
            choices += ["hidden", "hidden"]
        d = r.choice(choices)
        if k == 0:
            d = "none"                          # positional-only and optional is refused by InputShape
        if k != 2 and seen_optional and d == "none":
            d = r.choice([c for c in choices if c != "none"])
        if d != "none" and k != 2:
            seen_optional = True
        if d == "none":
            default = ("none",)
        elif d == "value":
            default = ("value", family_val() if family is not None else gen_val(r, 2, hashable=(model_kind == "dataclass")))
        elif d == "factory":
            default = ("factory", r.choice(["list", "dict", "tuple", "str", "bytes", "nonetype"]))
        elif d == "userfactory":
            default = ("userfactory", r.randrange(len(FACTORIES)))
        else:
            default = ("hidden", r.randrange(5))
        flds.append({"kind": k, "default": default, "skipped": d != "none" and r.random() < 0.25,
                     "private": model_kind == "attrs" and r.random() < 0.3})
    return flds


FAC_PY = {"list": list, "dict": dict, "tuple": tuple, "str": str, "bytes": bytes, "nonetype": type(None)}
FAC_COQ = {"list": "FacList", "dict": "FacDict", "tuple": "FacTuple", "str": "FacStr", "bytes": "FacBytes", "nonetype": "FacNoneType"}


def coq_default(d):
    if d[0] == "none":
        return "NoDefault"
    if d[0] == "value":
        return f"DValue ({coq_val(d[1])})"
    if d[0] == "factory":
        return f"DFactory {FAC_COQ[d[1]]}"
    if d[0] == "userfactory":
        return f"DFactory (FacUser {d[1]})"
    return f"DHidden {d[1]}"


def coq_shape(flds):
    return coq_list([
        f"{{| fid := {i}; pname := {i}; pkind := {KINDS[f['kind']]}; fdefault := {coq_default(f['default'])}; "
        f"fskipped := {'true' if f['skipped'] else 'false'} |}}" for i, f in enumerate(flds)])


def fname(i, f):
    return f"_f{i}" if f.get("private") else f"f{i}"


def build_class(model_kind, flds, tag):
    """the real model class; returns (cls, attribute names)"""
    import attrs
    names = [fname(i, f) for i, f in enumerate(flds)]
    if model_kind == "dataclass":
        specs = []
        for nm, f in zip(names, flds):
            kw = {"kw_only": True} if f["kind"] == 2 else {}
            d = f["default"]
            if d[0] == "value":
                kw["default"] = py_val(d[1])
            elif d[0] == "factory":
                kw["default_factory"] = FAC_PY[d[1]]
            elif d[0] == "userfactory":
                kw["default_factory"] = FACTORIES[d[1]]
            specs.append((nm, Any, field(**kw)))

        def post(self):
            STATE["post"] += 1
        cls = make_dataclass(f"DC{tag}", specs, bases=(Base,), namespace={"__post_init__": post})
        return cls, names
    if model_kind == "attrs":
        attrib = {}
        for nm, f in zip(names, flds):
            kw = {"kw_only": True} if f["kind"] == 2 else {}
            d = f["default"]
            if d[0] == "value":
                kw["default"] = py_val(d[1])
            elif d[0] == "factory":
                kw["default"] = attrs.Factory(FAC_PY[d[1]])
            elif d[0] == "userfactory":
                kw["default"] = attrs.Factory(FACTORIES[d[1]])
            elif d[0] == "hidden":
                kw["default"] = attrs.Factory(lambda self, i=d[1]: Hidden(i), takes_self=True)
            attrib[nm] = attrs.field(type=Any, **kw)

        def post(self):
            STATE["post"] += 1
        Mixin = type("Mixin", (Base,), {"__attrs_post_init__": post})
        cls = attrs.make_class(f"AT{tag}", attrib, bases=(Mixin,), slots=False)
        return cls, names
    # plain class with an explicit __init__
    ns = {"Any": Any}
    params = []
    last = -1
    for i, (nm, f) in enumerate(zip(names, flds)):
        if last == 0 and f["kind"] != 0:
            params.append("/")
        if f["kind"] == 2 and last != 2:
            params.append("*")
        last = f["kind"]
        if f["default"][0] == "value":
            ns[f"D{i}"] = py_val(f["default"][1])
            params.append(f"{nm}: Any = D{i}")
        else:
            params.append(f"{nm}: Any")
    if last == 0:
        params.append("/")
    body = "".join(f"        self.{nm} = {nm}\n" for nm in names)
    src = (f"class IN{tag}(Base):\n    def __init__(self, {', '.join(params)}):\n{body}        STATE['post'] += 1\n")
    ns.update({"Base": Base, "STATE": STATE})
    exec(src, ns)  # noqa: S102  (text built from our own field indices only)
    return ns[f"IN{tag}"], names


def observed(retort, cls, names, flds, data):
    from adaptix.load_error import LoadError
    STATE["calls"], STATE["log"], STATE["post"] = 0, [], 0
    try:
        obj = retort.load(data, cls)
    except LoadError as e:
        return "missing-required" if not STATE["log"] else f"load-error-after-call:{type(e).__name__}", None
    except TypeError:
        call = STATE["log"][-1] if STATE["log"] else ((), {})
        return "call(" + show_call(call, names) + ") -> TypeError", None
    call = STATE["log"][-1] if STATE["log"] else ((), {})
    text = ("call(" + show_call(call, names) + ") -> " + ";".join(f"{i}={show_py(getattr(obj, nm))}" for i, nm in enumerate(names))
            + f" factory_calls={STATE['calls']}")
    return text, obj


def show_call(call, names):
    a, kw = call
    idx = {nm.lstrip("_"): i for i, nm in enumerate(names)}
    return ";".join([f"P={show_py(v)}" for v in a] + [f"K{idx.get(k, k)}={show_py(v)}" for k, v in kw.items()])


def erase(text):
    import re
    return re.sub(r"M(\d+):\d+", r"M\1", text)


# ----------------------------------------------------------------------------------------------------------------------

# ---- recursive models whose optional fields the loader cannot default by itself (TypedDict NotRequired keys, attrs
# Factory(takes_self=True)): such fields travel through **kwargs of the constructor call, one mapping per call
import attrs as _attrs  # noqa: E402
from typing import List as _List, NotRequired as _NotRequired, TypedDict as _TypedDict  # noqa: E402

TREE_CALLS = []


class TDNode(_TypedDict):
    name: str
    kids: _List["TDNode"]
    tag: _NotRequired[str]
    weight: _NotRequired[int]


@_attrs.define
class ATree:
    name: str
    kids: _List["ATree"] = _attrs.Factory(list)
    label: str = _attrs.Factory(lambda self: "label-of-" + self.name, takes_self=True)
    size: int = _attrs.Factory(lambda self: len(self.kids), takes_self=True)

    def __attrs_post_init__(self):
        TREE_CALLS.append((self.name, self.label, self.size))


def reentrant_optional_fields(rep, r, tier):
    """every level of a recursive model is built by its own constructor call with exactly the fields present at THAT level:
    random trees (depth <= 4) in which each node supplies a random subset of the optional fields; expected = the tree
    built by hand with the real constructors"""
    from adaptix import DebugTrail, Retort

    def gen(depth, path="r"):
        node = {"name": path, "kids": [gen(depth - 1, f"{path}{i}") for i in range(r.choice([0, 1, 2]) if depth > 0 else 0)]}
        if r.random() < 0.5:
            node["tag"] = "tag-" + path
        if r.random() < 0.4:
            node["weight"] = len(path)
        return node

    def as_attrs_input(node):
        d = {"name": node["name"], "kids": [as_attrs_input(k) for k in node["kids"]]}
        if "tag" in node:
            d["label"] = node["tag"]
        if "weight" in node:
            d["size"] = node["weight"]
        return d

    def build_attrs(d):
        kw = {k: v for k, v in d.items() if k in ("label", "size")}
        return ATree(name=d["name"], kids=[build_attrs(k) for k in d["kids"]], **kw)

    n = 0
    reported = set()
    for mode in ("DISABLE", "FIRST", "ALL"):
        rt = Retort(debug_trail=getattr(DebugTrail, mode))
        for _ in range(12 if tier == "quick" else 120):
            tree = gen(r.choice([2, 3, 3, 4]))
            n += 2
            got = rt.load(tree, TDNode)
            if got != tree and "td" not in reported:
                reported.add("td")
                rep.violation("reentrant:typeddict", "property-violated",
                              {"what": "a recursive TypedDict with NotRequired keys: a node received keys that are not in its own input "
                                       "(or lost some)", "mode": mode, "input": repr(tree)[:600], "got": repr(got)[:600]})
            ain = as_attrs_input(tree)
            del TREE_CALLS[:]
            want = build_attrs(ain)
            want_calls = sorted(TREE_CALLS)
            del TREE_CALLS[:]
            got = rt.load(ain, ATree)
            got_calls = sorted(TREE_CALLS)
            if (got != want or got_calls != want_calls) and "attrs" not in reported:
                reported.add("attrs")
                rep.violation("reentrant:attrs-takes-self", "property-violated",
                              {"what": "a recursive attrs model with Factory(takes_self=True) defaults: the loaded tree differs from the "
                                       "tree built with the constructor from the same per-node fields", "mode": mode,
                               "input": repr(ain)[:600], "got": repr(got)[:600], "expected": repr(want)[:600],
                               "post_init_calls_got": repr(got_calls)[:300], "post_init_calls_expected": repr(want_calls)[:300]})
    return n


import itertools as _it  # noqa: E402

_SEQ = _it.count(100)
_FACTORY_CALLS = []


@dataclass
class Ticket:
    ident: int
    number: int = field(default_factory=lambda: next(_SEQ))
    bag: list = field(default_factory=lambda: [next(_SEQ)])
    stamp: str = field(default_factory=lambda: _FACTORY_CALLS.append(1) or f"s{len(_FACTORY_CALLS)}")


@dataclass
class Event:
    ident: int
    tag: str = field(default="x", kw_only=True)      # declared second, last in __init__
    retries: int = 3
    priority: int = 7


def factories_and_orders(rep):
    """(a) a default factory is called once for each loaded object that omits the field - also when it is a lambda without a
    closure whose result happens to have a literal; (b) a model whose field declaration order differs from its __init__
    order (a kw_only field declared before positional ones) with a skipped optional parameter: every value still reaches
    its own parameter"""
    from adaptix import DebugTrail, Retort, name_mapping
    n = 0
    for mode in DebugTrail:
        rt = Retort(debug_trail=mode)
        del _FACTORY_CALLS[:]
        objs = [rt.load({"ident": i}, Ticket) for i in range(3)]
        n += 3
        numbers = [o.number for o in objs] + [o.bag[0] for o in objs]
        if len(set(numbers)) != 6 or len(_FACTORY_CALLS) != 3 or len({o.stamp for o in objs}) != 3 or any(a.bag is b.bag for a in objs for b in objs if a is not b):
            rep.violation("factory:called-per-object", "property-violated",
                          {"what": "three loads that omit fields with default factories: every object must get a fresh result of each "
                                   "factory (the factories count their calls)", "mode": mode.name, "objects": repr(objs),
                           "stamp_factory_calls": len(_FACTORY_CALLS)})
        for skip, data, want in ((["retries"], {"ident": 1, "priority": 50, "tag": "t"}, Event(1, tag="t", retries=3, priority=50)),
                                 (["retries"], {"ident": 1, "priority": 50}, Event(1, retries=3, priority=50)),
                                 (["priority"], {"ident": 1, "retries": 9, "tag": "t"}, Event(1, tag="t", retries=9, priority=7)),
                                 (["tag"], {"ident": 1, "retries": 9, "priority": 8}, Event(1, retries=9, priority=8)),
                                 ([], {"ident": 1, "priority": 8}, Event(1, priority=8))):
            n += 1
            try:
                got = Retort(debug_trail=mode, recipe=[name_mapping(Event, skip=skip)] if skip else []).load(data, Event)
            except Exception as e:  # noqa: BLE001
                got = f"raises {type(e).__name__}: {str(e)[:80]}"
            if got != want:
                rep.violation("call:field-order-vs-parameter-order", "property-violated",
                              {"what": f"Event(ident, retries=3, priority=7, *, tag='x') with tag DECLARED second, skip={skip}: loading "
                                       f"{data} gives {got!r}, the constructor called with the loaded values gives {want!r}", "mode": mode.name})
    return n


def run(rep, tier, seed):
    from adaptix import DebugTrail, Retort, name_mapping
    from adaptix._internal.code_tools.utils import get_literal_expr
    proof = lib.proof_stage(rep, PID, extra_trusted=[
        "Python's evaluation of literals / displays and its call-binding rules are modelled (Ctor.eval, Ctor.bind) and "
        "compared with the interpreter on every generated case; str/bytes repr is the Repr.v model (C19) over ASCII / bytes"])
    r = random.Random(seed)
    stats = {"literal_cases": 0, "renderable": 0, "shapes": 0, "loads": 0, "missing_required": 0, "class_creation_refused": 0,
             "kinds": {}}
    samples = []
    # ---------------- literals
    n_lit = 600 if tier == "quick" else 6000
    vals = [gen_val(r, 3) for _ in range(n_lit)]
    vals += [("tuple", [("int", 1)]), ("tuple", [("tuple", [("look", 0, 1)])]), ("look", 0, 1), ("look", 1, 0), ("look", 2, 0),
             ("look", 3, 1), ("look", 4, 1), ("range", 1, 10, 2), ("slice", ("int", 1), ("int", 2), ("int", 3)),
             ("dict", [(("look", 0, 1), ("tuple", [("bool", True)]))]), ("str", [39]), ("str", [39, 34]), ("bytes", [39, 92, 255])]
    cases = []
    for v in vals:
        o = py_val(v)
        text = get_literal_expr(o)
        stats["literal_cases"] += 1
        cases.append((f"({coq_val(v)})", text if text is not None else "<not renderable>"))
        if text is not None:
            stats["renderable"] += 1
            # oracle: the text evaluates to the same value of the same type
            try:
                back = eval(text, {"__builtins__": builtins})  # noqa: S307  (text made of literals by the library from our values)
                same = show_py(back) == show_py(o)
            except Exception as e:  # noqa: BLE001
                back, same = e, False
            if not same:
                rep.violation(f"literal:{v[0]}:{classify_literal(v)}", "property-violated",
                              {"what": f"default value {o!r} is rendered as the literal {text!r}, which evaluates to {back!r}",
                               "value": repr(o), "literal": text, "abstract": repr(v)})
    ev = CoqEval(PID, "From AV Require Import Model.Ctor Model.CtorShow.", "show_literal", shard=300)
    for idx, got in ev.compare(cases):
        rep.violation(f"literal-model:{vals[idx][0]}", "model-disagrees",
                      {"what": "get_literal_expr and the model render a default differently", "value": repr(py_val(vals[idx])),
                       "implementation": cases[idx][1], "model": got, "abstract": repr(vals[idx])})
    for k, err in ev.errors:
        rep.violation("coq-eval-error:literal", "harness-error", {"what": err[-1500:]}, no_input=True)
    # ---------------- constructor calls
    n_shapes = 90 if tier == "quick" else 900
    ccases, meta = [], []
    # shapes that run first on every seed: several defaults that are equal and hash alike but of different types and have
    # no literal (Decimal(1), Fraction(1), IntEnum(1), int subclass 1, 1+0j) in one model
    def look(i, z, kind=1):
        return {"kind": kind, "default": ("value", ("look", i, z)), "skipped": False, "private": False}
    req = {"kind": 1, "default": ("none",), "skipped": False, "private": False}
    corpus_shapes = []
    for mk in ("dataclass", "attrs", "init"):
        corpus_shapes += [(mk, [dict(req), look(0, 1), look(1, 1), look(3, 1)]), (mk, [dict(req), look(4, 1), look(0, 1)]),
                          (mk, [look(1, 0), look(0, 0), look(4, 0), look(2, 0)]), (mk, [dict(req), look(3, 2), look(0, 2, 2), look(1, 2, 2)])]
    for s in range(n_shapes + len(corpus_shapes)):
        if s < len(corpus_shapes):
            model_kind, flds = corpus_shapes[s]
        else:
            model_kind = ["dataclass", "attrs", "init"][s % 3]
            flds = gen_shape(r, model_kind)
        try:
            cls, names = build_class(model_kind, flds, s)
        except (ValueError, TypeError):
            stats["class_creation_refused"] += 1
            continue
        stats["shapes"] += 1
        stats["kinds"][model_kind] = stats["kinds"].get(model_kind, 0) + 1
        skip = [nm for nm, f in zip(names, flds) if f["skipped"]]
        mode = [DebugTrail.ALL, DebugTrail.FIRST, DebugTrail.DISABLE][s % 3]
        retort = Retort(debug_trail=mode, recipe=[name_mapping(cls, skip=skip)] if skip else [])
        optional = [i for i, f in enumerate(flds) if f["default"][0] != "none"]
        required = [i for i, f in enumerate(flds) if f["default"][0] == "none"]
        subsets = list(itertools.chain.from_iterable(itertools.combinations(optional, k) for k in range(len(optional) + 1)))
        if len(subsets) > 8:
            subsets = [subsets[0], subsets[-1]] + r.sample(subsets[1:-1], 6)
        drop_req = [None] + ([r.choice(required)] if required and r.random() < 0.3 else [])
        for sub in subsets:
            for dr in drop_req:
                present = [i for i in required if i != dr] + list(sub)
                absval = {i: (r.choice(DATA_VALUES) if r.random() < 0.3 else ("int", 100 + i)) for i in present}
                data = {names[i]: py_val(absval[i]) for i in present}
                try:
                    text, obj = observed(retort, cls, names, flds, data)
                except Exception as e:  # noqa: BLE001
                    text, obj = f"{type(e).__name__}: {str(e)[:150]}", None
                stats["loads"] += 1
                if text == "missing-required":
                    stats["missing_required"] += 1
                info = {"model_kind": model_kind, "fields": [dict(f, default=repr(f["default"])) for f in flds], "data": repr(data),
                        "debug_trail": mode.name, "observed": text}
                ccases.append((f"({coq_shape(flds)}, {coq_list([f'({i}, {coq_val(absval[i])})' for i in sorted(present)])})", text))
                meta.append(info)
                if obj is not None:
                    direct_oracle(rep, retort, cls, names, flds, data, text, obj, info)
                if len(samples) < 3 and stats["loads"] % 97 == 0:
                    samples.append(info)
    stats["reentrant_loads"] = reentrant_optional_fields(rep, r, tier) + factories_and_orders(rep)
    ev2 = CoqEval(PID + "b", "From AV Require Import Model.Ctor Model.CtorShow.", "(fun c => show_load (fst c) (snd c))", shard=150)
    for idx, got in ev2.compare(ccases):
        rep.violation(f"call-model:{meta[idx]['model_kind']}:{classify_call(meta[idx], got)}", "model-disagrees",
                      dict(meta[idx], what="constructor call / resulting object differ from the model", model=got))
    for k, err in ev2.errors:
        rep.violation("coq-eval-error:call", "harness-error", {"what": err[-1500:]}, no_input=True)
    rep.cov.update({
        "evaluations": stats["literal_cases"] + stats["loads"] + stats["reentrant_loads"],
        "distinct_nontrivial": stats["renderable"] + stats["loads"] - stats["missing_required"],
        "rule": "default values: random trees of depth <= 3 over int / bool / None / Ellipsis / NotImplemented / floats (halves, "
                "-0.0, nan, inf) / ASCII str and bytes with quotes, backslashes, control characters / Decimal, Fraction, complex, "
                "IntEnum member, int subclass equal to 0, 1, ... / builtin functions and classes / opaque objects / list, tuple "
                "(incl. 1-tuples), set, frozenset, dict, range, slice; shapes: dataclass, attrs, plain __init__ with 1-5 "
                "parameters of sorted kinds, defaults none / value / builtin factory / user factory / class-only (attrs "
                "takes_self), optional fields skipped with probability 1/4, private attrs names; inputs: every subset of the "
                "optional fields (sampled to 8 when more) x a required field dropped in 30% of the shapes; non-trivial = "
                "renderable literal or a load that reaches the constructor",
        "samples": samples or [{"note": "none"}],
        "distribution": stats,
    })
    import loadgen as lg
    lg.proof_problems(rep, PID, proof)


def classify_literal(v):
    flat = repr(v)
    if "'look'" in flat:
        return "lookalike"
    if v[0] in ("range", "slice") or "'range'" in flat or "'slice'" in flat:
        return "range-slice"
    if "'tuple'" in flat:
        return "tuple"
    return "other"


def classify_call(info, model):
    if "TypeError" in info["observed"] and "TypeError" not in model:
        return "TypeError"
    if any("hidden" in f["default"] for f in info["fields"]):
        return "hidden-default"
    return "other"


def direct_oracle(rep, retort, cls, names, flds, data, text, obj, info):
    """independent of the model: compare with the class called directly on the present values"""
    if len(STATE["log"]) != 1:
        rep.violation(f"constructor-calls:{len(STATE['log'])}", "property-violated",
                      dict(info, what=f"the constructor was called {len(STATE['log'])} times for one load"))
    if STATE["post"] != 1:
        rep.violation("post-init", "property-violated", dict(info, what=f"__post_init__ / __init__ body ran {STATE['post']} times"))
    skipped = {nm for nm, f in zip(names, flds) if f["skipped"]}
    kwargs, pos = {}, []
    for nm, f in zip(names, flds):
        if nm in data and nm not in skipped:
            if f["kind"] == 0:
                pos.append(data[nm])
            else:
                kwargs[nm.lstrip("_")] = data[nm]
    STATE["calls"] = 0
    n_before = len(STATE["log"])
    ref = cls(*pos, **kwargs)
    del STATE["log"][n_before:]
    for i, nm in enumerate(names):
        a, b = getattr(obj, nm), getattr(ref, nm)
        if erase(show_py(a)) != erase(show_py(b)):
            rep.violation(f"default-differs:{flds[i]['default'][0]}:{classify_literal(flds[i]['default'][1]) if flds[i]['default'][0] == 'value' else ''}",
                          "property-violated",
                          dict(info, what=f"field {nm}: loaded object holds {a!r} ({type(a).__name__}), the class itself produces "
                                          f"{b!r} ({type(b).__name__})"))
    # two loads share no container made for a default
    obj2 = retort.load(data, cls)
    for i, nm in enumerate(names):
        if nm in data and nm not in skipped:
            continue
        d = flds[i]["default"]
        a, b = getattr(obj, nm), getattr(obj2, nm)
        if d[0] in ("factory", "userfactory") and isinstance(a, (list, dict, set, bytearray, Made)) and a is b:
            rep.violation(f"shared-default:{d[0]}", "property-violated",
                          dict(info, what=f"field {nm}: two loads share the very same object made by the default factory"))


def replay(rep, body):
    print("recorded:", body.get("what"))
    from adaptix._internal.code_tools.utils import get_literal_expr
    if "abstract" in body and "literal" in body:
        v = eval(body["abstract"])  # noqa: S307  (our own abstract value tuple)
        o = py_val(v)
        text = get_literal_expr(o)
        print("value:", repr(o), "literal now:", text)
        ok = False
        if text is not None:
            back = eval(text, {"__builtins__": builtins})  # noqa: S307
            ok = show_py(back) == show_py(o)
            print("evaluates to:", repr(back))
        if text is None or ok:
            print("does not reproduce")
            return
        rep.violation(body["signature"], body["kind"], body)
    else:
        rep.violation(body["signature"], body["kind"], body, no_input=body.get("no_failing_input_found", False))
