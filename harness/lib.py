"""Shared machinery of the adaptix verification checks (see /verif/DESIGN.md section 4).

Every check does: regenerate tables from /repo -> gate -> build the Coq project -> re-check Props/Cxx.v and collect
its Print Assumptions -> correspondence (model evaluated inside Coq by vm_compute against the implementation) ->
on any failure search the implementation for a concrete failing input -> evidence, replay files, exit status.
"""
import fcntl
import hashlib
import json
import os
import re
import subprocess
import sys
import time
import traceback
from concurrent.futures import ThreadPoolExecutor
from pathlib import Path

VERIF = Path(__file__).resolve().parent.parent
COQ = VERIF / "coq"
WORK = VERIF / ".work"
REPO = Path("/repo")
SRC = REPO / "src" / "adaptix" / "_internal"
COQC = "coqc"
COQ_ARGS = ["-Q", str(COQ), "AV"]

GATE_RE = re.compile(
    r"\bAdmitted\b|\badmit\b|\bAxiom\b|\bAxioms\b|\bParameter\b|\bParameters\b|\bConjecture\b|Unset Guard|bypass_check|"
    r"type-in-type|impredicative-set|Admit Obligations|Unset Universe Checking|Unset Positivity",
)


def sh(cmd, timeout=900, cwd=None, env=None, input=None):
    """Run a command, return (exit status, combined output). A timeout is reported as status 124."""
    try:
        p = subprocess.run(cmd, cwd=cwd, env=env, input=input, stdout=subprocess.PIPE, stderr=subprocess.STDOUT,
                           timeout=timeout, text=True, shell=isinstance(cmd, str))
        return p.returncode, p.stdout
    except subprocess.TimeoutExpired as e:
        out = e.stdout.decode() if isinstance(e.stdout, bytes) else (e.stdout or "")
        return 124, out + "\n[timeout]"


class Lock:
    def __enter__(self):
        WORK.mkdir(exist_ok=True)
        self.f = open(WORK / "lock", "w")
        fcntl.flock(self.f, fcntl.LOCK_EX)
        return self

    def __exit__(self, *a):
        fcntl.flock(self.f, fcntl.LOCK_UN)
        self.f.close()


# ----------------------------------------------------------------------------------------------------------------------
# translator, gate, build

def write_if_changed(path: Path, text: str):
    if path.exists() and path.read_text() == text:
        return False
    path.parent.mkdir(parents=True, exist_ok=True)
    path.write_text(text)
    return True


def translate_all():
    """Regenerate coq/Generated/*.v from /repo's working tree. Returns {table name: error text} for tables whose
    translator failed closed (the stale file is then replaced by one that does not compile on purpose)."""
    import translate
    errors = {}
    for name, fn in translate.TABLES.items():
        path = COQ / "Generated" / f"{name}.v"
        try:
            text = fn()
        except Exception as e:  # fail closed
            errors[name] = f"{type(e).__name__}: {e}"
            text = (f"(* translator failed closed: {errors[name]!s} *)\n"
                    "Definition translator_failed : True := I I.\n").replace("*)", "* )", 0)
        write_if_changed(path, text)
    return errors


def gate():
    """No Admitted / Axiom / Parameter / switched-off checks anywhere in the development; no top-level
    Variable/Hypothesis outside a Section."""
    bad = []
    for p in sorted(COQ.rglob("*.v")):
        depth = 0
        in_comment = 0
        for n, line in enumerate(p.read_text().splitlines(), 1):
            # strip comments (nesting-aware, good enough for our own files)
            out = []
            i = 0
            while i < len(line):
                if line.startswith("(*", i):
                    in_comment += 1
                    i += 2
                elif line.startswith("*)", i) and in_comment:
                    in_comment -= 1
                    i += 2
                else:
                    if not in_comment:
                        out.append(line[i])
                    i += 1
            code = "".join(out)
            if GATE_RE.search(code):
                bad.append(f"{p.relative_to(VERIF)}:{n}: {line.strip()}")
            if re.match(r"\s*Section\b", code):
                depth += 1
            if re.match(r"\s*End\b", code) and depth:
                depth -= 1
            if depth == 0 and re.match(r"\s*(Variable|Variables|Hypothesis|Hypotheses|Context)\b", code):
                bad.append(f"{p.relative_to(VERIF)}:{n}: top-level {line.strip()}")
    return bad


def coq_project_files():
    files = []
    for sub in ("Generated", "Model", "Proofs", "Props"):
        files += sorted(str(p.relative_to(COQ)) for p in (COQ / sub).glob("*.v"))
    return files


def build(jobs=16, timeout=1500, clean=False):
    """Full .vo build through coq_makefile (never -vos). make -k: independent properties stay checkable."""
    proj = "-Q . AV\n" + "\n".join(coq_project_files()) + "\n"
    changed = write_if_changed(COQ / "_CoqProject", proj)
    if changed or not (COQ / "Makefile").exists():
        st, out = sh(["coq_makefile", "-f", "_CoqProject", "-o", "Makefile"], cwd=COQ)
        if st != 0:
            return False, out
    if clean:
        sh(["make", "clean"], cwd=COQ)
    st, out = sh(["make", "-k", f"-j{jobs}"], cwd=COQ, timeout=timeout)
    return st == 0, out


def check_props(pid):
    """Re-run coqc on Props/Cxx.v (its dependencies must already be built) and parse Print Assumptions."""
    f = COQ / "Props" / f"{pid}.v"
    st, out = sh([COQC, *COQ_ARGS, str(f)], cwd=COQ, timeout=600)
    text = f.read_text()
    theorems = re.findall(r"^\s*(?:Theorem|Lemma|Corollary|Example)\s+([A-Za-z0-9_']+)", text, flags=re.M)
    closed = out.count("Closed under the global context")
    axioms = []
    for m in re.finditer(r"Axioms:\n((?:.+\n?)+?)(?=\n|\Z)", out):
        for line in m.group(1).splitlines():
            mm = re.match(r"^([A-Za-z0-9_.']+)\s*:", line)
            if mm:
                axioms.append(mm.group(1))
    # section-variable hypotheses are printed as "Section Variables:" -- props files are closed, so none expected
    return {"ok": st == 0, "status": st, "output": out, "theorems": theorems, "closed": closed,
            "axioms": sorted(set(axioms))}


# ----------------------------------------------------------------------------------------------------------------------
# evaluating the model inside Coq

def coq_str(s: str) -> str:
    """A Gallina string term for an arbitrary Python str (UTF-8 bytes; non printable bytes through codes)."""
    b = s.encode("utf-8", "surrogatepass")
    if all(32 <= c < 127 for c in b):
        return '"' + s.replace('"', '""') + '"%string'
    return "(AV.Model.Harness.of_codes [" + ";".join(str(c) for c in b) + "]%nat)"


def coq_list(xs):
    return "[" + "; ".join(xs) + "]"


def coq_bool(b):
    return "true" if b else "false"


def coq_nat(n):
    assert 0 <= n < 5000, n
    return f"{n}%nat"


def coq_Z(n):
    return f"({n})%Z"


def coq_opt(x):
    return "None" if x is None else f"(Some {x})"


class CoqEval:
    """Evaluate `run case` for many cases inside Coq and compare with the strings the implementation produced.

    header: Coq text (Require Imports, local definitions); run: name of a Gallina function case -> string;
    cases: list of (coq term, expected string).  Returns list of (index, model string) for mismatches.
    """

    def __init__(self, pid, header, run, shard=400, jobs=12):
        self.pid, self.header, self.run, self.shard, self.jobs = pid, header, run, shard, jobs
        self.dir = WORK / pid
        self.dir.mkdir(parents=True, exist_ok=True)
        for old in self.dir.glob("cases_*"):
            old.unlink()
        self.errors = []

    def _one(self, k, chunk, base):
        f = self.dir / f"cases_{k}.v"
        lines = ["From Coq Require Import List String ZArith.", "From AV Require Import Model.Harness.",
                 "Import ListNotations.", self.header, "Local Open Scope list_scope.",
                 "Definition cases := ["]
        lines.append(";\n".join(f"({t}, {coq_str(e)})" for t, e in chunk))
        lines.append("].")
        lines.append(f"Definition bad := AV.Model.Harness.mismatches ({self.run}) 0 cases.")
        lines.append("Eval vm_compute in (AV.Model.Harness.show_bad bad).")
        f.write_text("\n".join(lines) + "\n")
        st, out = sh([COQC, *COQ_ARGS, str(f)], cwd=self.dir, timeout=900)
        if st != 0:
            self.errors.append((k, out[-3000:]))
            return []
        m = re.search(r'=\s*"((?:[^"]|"")*)"', out, flags=re.S)
        if not m:
            self.errors.append((k, "unparsable coq output: " + out[-2000:]))
            return []
        body = m.group(1).replace('""', '"')
        body = re.sub(r"\n\s*", lambda mm: mm.group(0) if False else mm.group(0), body)
        res = []
        for rec in body.split("|~|"):
            if not rec.strip():
                continue
            idx, _, val = rec.partition("~:~")
            res.append((base + int(idx.strip()), val))
        return res

    def compare(self, cases):
        chunks = [(k, cases[i:i + self.shard], i) for k, i in enumerate(range(0, len(cases), self.shard))]
        out = []
        with ThreadPoolExecutor(self.jobs) as ex:
            for r in ex.map(lambda a: self._one(*a), chunks):
                out += r
        return sorted(out)


# ----------------------------------------------------------------------------------------------------------------------
# findings, replays, evidence

def load_known():
    p = VERIF / "known_findings.json"
    if not p.exists():
        return []
    return json.loads(p.read_text())["findings"]


class Report:
    def __init__(self, pid, tier, seed):
        self.pid, self.tier, self.seed = pid, tier, seed
        self.t0 = time.time()
        self.violations = {}   # sig -> replay path
        self.known_hit = {}
        self.known = [k for k in load_known() if k["property"] == pid and k.get("status") == "known"]
        self.cov = {"evaluations": 0, "distinct_nontrivial": 0, "samples": [], "rule": "", "obligations": 0,
                    "discharged": 0, "checker_cmd": "", "trusted_base": []}
        self.assumptions = []
        self.lines = []

    def say(self, *a):
        print(*a, flush=True)

    def violation(self, sig, kind, detail, no_input=False):
        """Record a violation. sig: stable signature of the minimised failing case; detail: JSON-able replay body."""
        for k in self.known:
            if k["signature"] == sig or (k.get("signature_re") and re.fullmatch(k["signature_re"], sig)):
                if k["signature"] not in self.known_hit:
                    self.known_hit[k["signature"]] = k
                    self.say(f"KNOWN-FINDING: property={self.pid} {k['what']}")
                return False
        if sig in self.violations:
            return True
        d = VERIF / "replays" / self.pid
        d.mkdir(parents=True, exist_ok=True)
        h = hashlib.sha1(sig.encode()).hexdigest()[:12]
        path = d / f"{h}.json"
        body = {"property": self.pid, "kind": kind, "signature": sig, "tier": self.tier, "seed": self.seed,
                "no_failing_input_found": bool(no_input), **detail}
        path.write_text(json.dumps(body, indent=1, default=repr))
        self.violations[sig] = str(path)
        tail = " no-failing-input-found" if no_input else ""
        self.say(f"VIOLATION property={self.pid} replay={path}{tail}")
        return True

    def write_evidence(self, level="proof"):
        ev = {
            "property_id": self.pid, "tier": self.tier, "seed": self.seed, "level": level,
            "coverage": self.cov, "assumptions": self.assumptions,
            "wall_s": round(time.time() - self.t0, 2), "violations": len(self.violations),
            "known_findings_hit": sorted(self.known_hit),
        }
        (VERIF / "evidence").mkdir(exist_ok=True)
        (VERIF / "evidence" / f"{self.pid}.json").write_text(json.dumps(ev, indent=1, default=repr))

    def exit_code(self):
        return 1 if self.violations else 0


def short(x, n=300):
    s = repr(x) if not isinstance(x, str) else x
    return s if len(s) <= n else s[:n] + "..."


def proof_stage(rep: Report, pid, extra_trusted=()):
    """Common steps 1-3 of a check. Returns dict(ok=..., detail=...) ; never raises."""
    t0 = time.time()
    terrs = translate_all()
    g = gate()
    ok, out = build()
    pr = check_props(pid)
    n_thm = len(pr["theorems"])
    rep.cov["obligations"] = n_thm
    rep.cov["discharged"] = n_thm if pr["ok"] else 0
    rep.cov["checker_cmd"] = f"cd /verif/coq && make -k -j16 && coqc -Q . AV Props/{pid}.v   (Coq 8.16.1, full .vo build)"
    rep.cov["theorems"] = pr["theorems"]
    rep.cov["print_assumptions"] = {"closed_under_global_context": pr["closed"], "axioms": pr["axioms"]}
    rep.cov["trusted_base"] = [
        "Coq 8.16.1 kernel (coqc; vm_compute used for table lemmas, refutation witnesses and model evaluation; no native_compute)",
        "axioms reported by Print Assumptions: " + (", ".join(pr["axioms"]) if pr["axioms"] else "none (closed under the global context)"),
        "translator /verif/harness/translate (fail-closed ast pass regenerating coq/Generated/*.v from /repo)",
        "correspondence harness /verif/harness (generators, renderers to Python and to Gallina, canonical printers)",
        "no extraction: the model is evaluated inside Coq",
        *extra_trusted,
    ]
    rep.cov["build_s"] = round(time.time() - t0, 1)
    problems = []
    if g:
        problems.append(("gate", "\n".join(g)))
    if terrs:
        problems.append(("translator", json.dumps(terrs)))
    if not pr["ok"]:
        # find the first failing file in the make log for the replay
        m = re.findall(r'File "([^"]+)", line (\d+)[^\n]*\n(?:.*\n){0,12}?Error:[^\n]*(?:\n[^\n]+){0,6}', out)
        problems.append(("proof", (pr["output"][-2500:] or "") + "\n--- make log tail ---\n" + out[-2500:]))
    return {"ok": not problems, "problems": problems, "props": pr, "make_ok": ok}


class ScratchReport(Report):
    """collects violations without writing replays or printing (used to replay a recorded violation by re-running)"""

    def __init__(self, pid, tier, seed):
        super().__init__(pid, tier, seed)
        self.found = {}

    def violation(self, sig, kind, detail, no_input=False):
        self.found.setdefault(sig, (kind, detail, no_input))
        return True


def replay_by_rerun(mod, rep, body):
    """re-run the whole check with the recorded tier and seed; the violation is reproduced iff its signature recurs"""
    scratch = ScratchReport(rep.pid, body.get("tier", "quick"), body.get("seed", 0))
    mod.run(scratch, scratch.tier, scratch.seed)
    sig = body["signature"]
    if sig in scratch.found:
        kind, detail, no_input = scratch.found[sig]
        print("reproduced:", detail.get("what"))
        rep.violation(sig, kind, detail, no_input=no_input)
    else:
        print("does not reproduce on the current tree")
