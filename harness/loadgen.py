"""Shared generator / renderers for the non-model load and dump models (coq/Model/Load.v, Dump.v).

Types and data are drawn in the model's vocabulary; a type carries the *spelling* chosen for it (typing alias, builtin
generic, abstract collection) because the spelling decides the order in which a union tries its cases.
"""
import collections.abc as cabc
import random
import typing
from typing import Any, Dict, FrozenSet, List, Literal, Optional, Set, Tuple, Union

from lib import coq_list, coq_str

# spelling tables: (python object factory, origin used by the normaliser)
ITER_SPELL = {
    "KList": [("List", lambda a: List[a], list), ("list", lambda a: list[a], list),
              ("MutableSequence", lambda a: typing.MutableSequence[a], cabc.MutableSequence)],
    "KTuple": [("TupleVar", lambda a: Tuple[a, ...], tuple), ("Sequence", lambda a: typing.Sequence[a], cabc.Sequence),
               ("Iterable", lambda a: typing.Iterable[a], cabc.Iterable),
               ("Collection", lambda a: typing.Collection[a], cabc.Collection)],
    "KSet": [("Set", lambda a: Set[a], set), ("MutableSet", lambda a: typing.MutableSet[a], cabc.MutableSet)],
    "KFrozenSet": [("FrozenSet", lambda a: FrozenSet[a], frozenset), ("AbstractSet", lambda a: typing.AbstractSet[a], cabc.Set)],
}
DICT_SPELL = [("Dict", lambda k, v: Dict[k, v], dict), ("dict", lambda k, v: dict[k, v], dict),
              ("Mapping", lambda k, v: typing.Mapping[k, v], cabc.Mapping),
              ("MutableMapping", lambda k, v: typing.MutableMapping[k, v], cabc.MutableMapping)]

LITS = [("LInt", 0), ("LInt", 1), ("LInt", 2), ("LInt", 7), ("LBool", True), ("LBool", False),
        ("LStr", "a"), ("LStr", "b"), ("LStr", "1"), ("LStr", ""), ("LInt", -3), ("LInt", 10)]


BOOM_STATE = {"raised": 0}


class Boom:
    """a user type served by a user-supplied loader that raises a non-LoadError for str input"""


def boom_loader(x):
    from adaptix.load_error import TypeLoadError
    if type(x) is int:
        return x
    if type(x) is str:
        BOOM_STATE["raised"] += 1
        raise ValueError("boom")
    raise TypeLoadError(int, x)


def origin_key(t):
    """the string the union normaliser sorts a member by (its origin part; members of one union have distinct origins)"""
    k = t[0]
    if k == "TNone":
        return "None"
    if k == "TAny":
        return str(Any)
    if k == "TLit":
        return str(Literal)
    if k == "TIter":
        return str(next(o for n, f, o in ITER_SPELL[t[1]] if n == t[3]))
    if k == "TTuple":
        return str(tuple)
    if k == "TDict":
        return str(next(o for n, f, o in DICT_SPELL if n == t[3]))
    if k == "TUser":
        return str(Boom)
    return str({"TInt": int, "TFloat": float, "TBool": bool, "TStr": str}[k])


class TyGen:
    def __init__(self, rnd, hashable_elems=True, allow_any=True, dict_spellings=None, scalar_pool=None, allow_user=False):
        self.r = rnd
        self.allow_any = allow_any
        self.allow_user = allow_user
        self.dict_spellings = dict_spellings or ["Dict", "dict", "Mapping", "MutableMapping"]
        self.scalars = scalar_pool or ["TInt", "TInt", "TStr", "TStr", "TBool", "TFloat", "TNone"]

    def scalar(self):
        r = self.r
        if self.allow_any and r.random() < 0.08:
            return ("TAny",)
        if r.random() < 0.15:
            return ("TLit", r.sample(LITS, r.choice([1, 2, 3, 5, 6])))
        if self.allow_user and r.random() < 0.15:
            return ("TUser", 0)
        return (r.choice(self.scalars),)

    def hashable_ty(self, d):
        """types whose loaded values can be set elements / dict keys"""
        r = self.r
        k = r.random()
        if d <= 0 or k < 0.7:
            s = self.scalar()
            return s if s[0] != "TAny" else ("TInt",)
        if k < 0.85:
            return ("TTuple", [self.hashable_ty(d - 1) for _ in range(r.randint(0, 2))])
        if k < 0.93:
            return ("TOpt", self.nonopt(self.hashable_ty, d - 1))
        return ("TIter", "KFrozenSet", self.hashable_ty(d - 1), r.choice(["FrozenSet", "AbstractSet"]))

    def nonopt(self, f, d):
        for _ in range(20):
            t = f(d)
            if t[0] not in ("TOpt", "TUnion", "TNone", "TAny"):
                return t
        return ("TInt",)

    def ty(self, d=3):
        r = self.r
        k = r.random()
        if d <= 0 or k < 0.25:
            return self.scalar()
        if k < 0.45:
            kind = r.choice(["KList", "KList", "KTuple", "KSet", "KFrozenSet"])
            el = self.hashable_ty(d - 1) if kind in ("KSet", "KFrozenSet") else self.ty(d - 1)
            return ("TIter", kind, el, r.choice(ITER_SPELL[kind])[0])
        if k < 0.58:
            return ("TTuple", [self.ty(d - 1) for _ in range(r.randint(0, 3))])
        if k < 0.72:
            return ("TDict", self.hashable_ty(d - 1), self.ty(d - 1), r.choice(self.dict_spellings))
        if k < 0.84:
            return ("TOpt", self.nonopt(self.ty, d - 1))
        members = []
        seen = set()
        for _ in range(r.randint(2, 4)):
            m = self.ty(d - 1)
            if m[0] in ("TOpt", "TUnion"):
                continue
            ok = origin_key(m)
            if ok in seen:
                continue
            seen.add(ok)
            members.append(m)
        if len(members) < 2:
            return members[0] if members else ("TInt",)
        members.sort(key=origin_key)
        if len(members) == 2 and any(m[0] == "TNone" for m in members):
            other = next(m for m in members if m[0] != "TNone")
            return ("TOpt", other) if other[0] != "TAny" else ("TInt",)
        return ("TUnion", members)


# ----------------------------------------------------------------------------------------------------------------------
# values

JUNK = [("VNone",), ("VBool", True), ("VBool", False), ("VInt", 0), ("VInt", 1), ("VInt", -5), ("VInt", 10 ** 400),
        ("VFloat", 1), ("VFloat", 0), ("VFloat", 3), ("VStr", ""), ("VStr", "a"), ("VStr", "12"), ("VStr", "-3"), ("VStr", "x y"),
        ("VStr", "1"), ("VStr", "0"), ("VBytes", "a"), ("VBytes", "12"), ("VBytes", ""),
        ("VList", []), ("VList", [("VInt", 1)]), ("VList", [("VStr", "a"), ("VInt", 2)]), ("VList", [("VList", [])]),
        ("VTuple", []), ("VTuple", [("VInt", 1), ("VStr", "a")]), ("VTuple", [("VBool", True)]),
        ("VSet", []), ("VSet", [("VInt", 3)]), ("VFrozenSet", [("VStr", "a")]),
        ("VDict", []), ("VDict", [(("VStr", "a"), ("VInt", 1))]), ("VDict", [(("VInt", 0), ("VInt", 1)), (("VInt", 1), ("VStr", "b"))]),
        ("VObj", 1)]


class ValGen:
    def __init__(self, rnd, junk_rate=0.18):
        self.r = rnd
        self.junk_rate = junk_rate

    def junk(self):
        return self.r.choice(JUNK)

    def value(self, t, sc=True, d=4, in_union=False):
        """a datum for type t: usually one the loader accepts, sometimes a look-alike or junk.
        One-shot iterators are only produced outside unions: the cases of a union would consume them in turn."""
        r = self.r
        if r.random() < self.junk_rate:
            return self.junk()
        k = t[0]
        if k == "TInt":
            return ("VInt", r.choice([0, 1, 2, 5, -7, 12, 255])) if sc or r.random() < 0.6 else \
                r.choice([("VStr", "12"), ("VBool", True), ("VFloat", 3), ("VStr", "-4"), ("VBytes", "7")])
        if k == "TFloat":
            return r.choice([("VFloat", 2), ("VFloat", 0), ("VInt", 3), ("VFloat", -1)]) if sc or r.random() < 0.6 else \
                r.choice([("VStr", "12"), ("VBool", False)])
        if k == "TBool":
            return ("VBool", r.random() < 0.5)
        if k == "TStr":
            return ("VStr", r.choice(["", "a", "bc", "12", "it's", "q\"x"]))
        if k == "TNone":
            return ("VNone",)
        if k == "TUser":
            return r.choice([("VInt", 4), ("VInt", 9), ("VStr", "boom"), ("VNone",)])
        if k == "TAny":
            return self.junk()
        if k == "TLit":
            l = r.choice(t[1])
            return {"LInt": ("VInt", l[1]), "LBool": ("VBool", l[1]), "LStr": ("VStr", l[1])}[l[0]]
        if k == "TIter":
            n = r.choice([0, 1, 2, 3])
            els = [self.value(t[2], sc, d - 1, in_union) for _ in range(n)]
            shape = r.choice(["VList", "VList", "VTuple"] + ([] if in_union else ["VIter"])
                             + (["VSet"] if n <= 1 and all(py_hashable(e) for e in els) else []))
            return (shape, els)
        if k == "TTuple":
            n = len(t[1]) + (r.choice([-1, 1]) if r.random() < 0.12 else 0)
            els = [self.value(t[1][i] if i < len(t[1]) else ("TInt",), sc, d - 1, in_union) for i in range(max(n, 0))]
            return (r.choice(["VList", "VTuple", "VTuple"] + ([] if in_union else ["VIter"])), els)
        if k == "TDict":
            n = r.choice([0, 1, 2, 3])
            items, seen = [], []
            for _ in range(n):
                kk = self.value(t[1], sc, d - 1, True)
                if not py_hashable(kk) or any(py_eq_key(kk, s) for s in seen):
                    continue
                seen.append(kk)
                items.append((kk, self.value(t[2], sc, d - 1, in_union)))
            return ("VDict", items)
        if k == "TOpt":
            return ("VNone",) if r.random() < 0.3 else self.value(t[1], sc, d - 1, in_union)
        if k == "TUnion":
            return self.value(r.choice(t[1]), sc, d - 1, True)
        raise ValueError(t)


def py_hashable(v):
    k = v[0]
    if k in ("VList", "VSet", "VDict"):
        return False
    if k in ("VTuple", "VFrozenSet"):
        return all(py_hashable(x) for x in v[1])
    return True


def num(v):
    return {"VBool": lambda: int(v[1]), "VInt": lambda: v[1], "VFloat": lambda: v[1]}.get(v[0], lambda: None)()


def py_eq_key(a, b):
    """would Python treat the two as one dict key?  (False == 0 == 0.0, and so for tuples of such)"""
    na, nb = num(a), num(b)
    if na is not None or nb is not None:
        return na == nb
    if a == b:
        return True
    try:
        return bool(py_val(a) == py_val(b))
    except Exception:  # noqa: BLE001
        return False


# ----------------------------------------------------------------------------------------------------------------------
# rendering to Gallina

def coq_lit(l):
    if l[0] == "LInt":
        return f"(LInt ({l[1]})%Z)"
    if l[0] == "LBool":
        return f"(LBool {'true' if l[1] else 'false'})"
    return f"(LStr {coq_str(l[1])})"


def coq_ty(t):
    k = t[0]
    if k in ("TInt", "TFloat", "TBool", "TStr", "TNone", "TAny"):
        return k
    if k == "TUser":
        return f"(TUser {t[1]})"
    if k == "TLit":
        return f"(TLit {coq_list([coq_lit(l) for l in t[1]])})"
    if k == "TIter":
        return f"(TIter {t[1]} {coq_ty(t[2])})"
    if k == "TTuple":
        return f"(TTuple {coq_list([coq_ty(x) for x in t[1]])})"
    if k == "TDict":
        return f"(TDict {coq_ty(t[1])} {coq_ty(t[2])})"
    if k == "TOpt":
        return f"(TOpt {coq_ty(t[1])})"
    return f"(TUnion {coq_list([coq_ty(x) for x in t[1]])})"


def coq_val(v):
    k = v[0]
    if k == "VNone":
        return "VNone"
    if k == "VBool":
        return f"(VBool {'true' if v[1] else 'false'})"
    if k in ("VInt", "VFloat"):
        return f"({k} ({v[1]})%Z)"
    if k in ("VStr", "VBytes"):
        return f"({k} {coq_str(v[1])})"
    if k == "VDict":
        return f"(VDict {coq_list([f'({coq_val(a)}, {coq_val(b)})' for a, b in v[1]])})"
    if k == "VObj":
        return f"(VObj {v[1]})"
    return f"({k} {coq_list([coq_val(x) for x in v[1]])})"


# ----------------------------------------------------------------------------------------------------------------------
# rendering to Python

class Foreign:
    __slots__ = ("tag",)

    def __init__(self, tag):
        self.tag = tag


def py_ty(t):
    k = t[0]
    if k in ("TInt", "TFloat", "TBool", "TStr"):
        return {"TInt": int, "TFloat": float, "TBool": bool, "TStr": str}[k]
    if k == "TNone":
        return None
    if k == "TAny":
        return Any
    if k == "TUser":
        return Boom
    if k == "TLit":
        return Literal[tuple(l[1] for l in t[1])]
    if k == "TIter":
        f = next(f for n, f, o in ITER_SPELL[t[1]] if n == t[3])
        return f(py_ty(t[2]))
    if k == "TTuple":
        return Tuple[tuple(py_ty(x) for x in t[1])] if t[1] else Tuple[()]
    if k == "TDict":
        f = next(f for n, f, o in DICT_SPELL if n == t[3])
        return f(py_ty(t[1]), py_ty(t[2]))
    if k == "TOpt":
        return Optional[py_ty(t[1])]
    return Union[tuple(py_ty(x) for x in t[1])]


def py_val(v):
    k = v[0]
    if k == "VNone":
        return None
    if k in ("VBool", "VInt", "VStr"):
        return v[1]
    if k == "VFloat":
        return float(v[1])
    if k == "VBytes":
        return v[1].encode("latin-1")
    if k == "VList":
        return [py_val(x) for x in v[1]]
    if k == "VTuple":
        return tuple(py_val(x) for x in v[1])
    if k == "VSet":
        return {py_val(x) for x in v[1]}
    if k == "VFrozenSet":
        return frozenset(py_val(x) for x in v[1])
    if k == "VDict":
        return {py_val(a): py_val(b) for a, b in v[1]}
    if k == "VIter":
        return iter([py_val(x) for x in v[1]])
    return Foreign(v[1])


# canonical printing of Python outcomes (must mirror Show in the Coq header below)

import re as _re
_OBJ_RE = _re.compile(r"<[^<>]* object at 0x[0-9a-f]+>")


def show_py(x):
    if x is None:
        return "N"
    if isinstance(x, bool):
        return "b1" if x else "b0"
    if isinstance(x, int):
        return f"i{x}"
    if isinstance(x, float):
        return f"f{int(x)}" if x == int(x) else "f?"
    if isinstance(x, str):
        return "s:" + _OBJ_RE.sub("<obj>", x)
    if isinstance(x, bytes):
        return "y:" + x.decode("latin-1")
    if isinstance(x, list):
        return "[" + ",".join(show_py(e) for e in x) + "]"
    if isinstance(x, tuple):
        return "(" + ",".join(show_py(e) for e in x) + ")"
    if isinstance(x, frozenset):
        return "F{" + ",".join(sorted(show_py(e) for e in x)) + "}"
    if isinstance(x, set):
        return "{" + ",".join(sorted(show_py(e) for e in x)) + "}"
    if isinstance(x, dict):
        return "D{" + ",".join(show_py(k) + "=" + show_py(v) for k, v in x.items()) + "}"
    if isinstance(x, Foreign):
        return f"O{x.tag}"
    if isinstance(x, cabc.Iterator):
        return "IT"
    return "?" + type(x).__name__


def show_err_py(e):
    from adaptix import load_error as le
    from adaptix.struct_trail import ItemKey, get_trail
    cls = type(e)
    code = {le.TypeLoadError: "T", le.ExcludedTypeLoadError: "Ex", le.ValueLoadError: "V", le.BadVariantLoadError: "B",
            le.NoRequiredItemsLoadError: "NI", le.ExtraItemsLoadError: "EI", le.UnionLoadError: "U",
            le.AggregateLoadError: "A", le.LoadError: "P"}.get(cls, "?" + cls.__name__)
    trail = []
    for el in get_trail(e):
        trail.append("K(" + show_py(el.key) + ")" if isinstance(el, ItemKey) else
                     (str(el) if isinstance(el, int) and not isinstance(el, bool) else show_py(el)))
    inp = ""
    if code in ("T", "Ex", "V", "B", "NI", "EI"):
        inp = "#" + show_py(e.input_value)
    subs = ""
    if code in ("U", "A"):
        subs = "<" + ";".join(show_err_py(s) if isinstance(s, le.LoadError) else "X:" + type(s).__name__
                              for s in e.exceptions) + ">"
    return code + "@" + "/".join(trail) + inp + subs


def run_load(retort, t, v):
    from adaptix import load_error as le
    BOOM_STATE["raised"] = 0
    try:
        return "OK " + show_py(retort.load(py_val(v), py_ty(t)))
    except le.LoadError as e:
        return "ER " + show_err_py(e)
    except BaseException as e:  # noqa: BLE001
        return "X"


# ----------------------------------------------------------------------------------------------------------------------
# exotic data: instances of proper SUBCLASSES of the builtin data types and other look-alikes that the Gallina value
# type does not represent.  They are run through the library only; the direct oracles (mode agreement, strict inside
# lax, LoadError only) are checked on them, the model is not.

ONE_SHOT = {"generator", "map-object"}


def exotic_values():
    import array
    import collections
    import enum

    class Tag(str):
        pass

    class Num(int):
        pass

    class Real(float):
        pass

    class Blob(bytes):
        pass

    class Rows(list):
        pass

    class Pair(tuple):
        pass

    class Bag(dict):
        pass

    class Level(enum.IntEnum):
        LOW = 1
        HIGH = 2

    class Kind(str, enum.Enum):
        A = "a"
        B = "12"

    class Bits(enum.IntFlag):
        R = 1
        W = 2

    NT = collections.namedtuple("NT", "a b")
    out = [
        ("str-sub:ab", lambda: Tag("ab")), ("str-sub:empty", lambda: Tag("")), ("str-sub:12", lambda: Tag("12")), ("str-enum", lambda: Kind.B),
        ("int-sub:1", lambda: Num(1)), ("int-sub:0", lambda: Num(0)), ("int-enum", lambda: Level.LOW), ("int-flag", lambda: Bits.R | Bits.W),
        ("float-sub", lambda: Real(1.0)), ("bytes-sub", lambda: Blob(b"ab")),
        ("list-sub", lambda: Rows([1, "a"])), ("list-sub:empty", lambda: Rows()), ("list-sub:strs", lambda: Rows(["a", "b"])),
        ("tuple-sub", lambda: Pair((1, "a"))), ("namedtuple", lambda: NT(1, "a")), ("namedtuple:strs", lambda: NT("a", "b")),
        ("dict-sub", lambda: Bag(a=1)), ("ordered-dict", lambda: collections.OrderedDict(a=1, b=2)),
        ("default-dict", lambda: collections.defaultdict(int, {"a": 1})), ("counter", lambda: collections.Counter("ab")),
        ("deque", lambda: collections.deque([1, 2])), ("range", lambda: range(2)), ("array", lambda: array.array("i", [1, 2])),
        ("memoryview", lambda: memoryview(b"ab")), ("dict-keys", lambda: {"a": 1}.keys()), ("dict-items", lambda: {"a": 1}.items()),
        ("mapping-proxy", lambda: type.__dict__["__dict__"].__get__(Tag)), ("generator", lambda: (x for x in ("a", "b"))),
        ("map-object", lambda: map(str, (1, 2))), ("str-sub-in-list", lambda: [Tag("ab"), Tag("c")]), ("int-sub-in-list", lambda: [Num(1), Level.HIGH]),
        ("list-of-str-sub-keys-dict", lambda: {Tag("a"): Num(1)}), ("nested-sub", lambda: Rows([Rows([1]), Pair((2,))])),
    ]
    return out


def run_exotic(retort, t, make):
    """-> ('ok', value) | ('le', exc) | ('x', exc); a fresh datum per call (one-shot iterators)"""
    from adaptix import load_error as le
    BOOM_STATE["raised"] = 0
    try:
        return ("ok", retort.load(make(), py_ty(t)))
    except le.LoadError as e:
        return ("le", e)
    except BaseException as e:  # noqa: BLE001
        return ("x", e)


SHOW_HEADER = """From AV Require Import Model.Val Model.Load Model.Harness.
From Coq Require Import Arith Bool.
Local Open Scope string_scope.
Fixpoint show_pv (v : pv) {struct v} : string :=
  let fix items (l : list pv) {struct l} : list string := match l with [] => [] | x :: r => show_pv x :: items r end in
  match v with
  | VNone => "N" | VBool b => if b then "b1" else "b0" | VInt z => "i" ++ show_Z z | VFloat z => "f" ++ show_Z z
  | VStr s => "s:" ++ s | VBytes s => "y:" ++ s
  | VList l => "[" ++ join "," (items l) ++ "]"
  | VTuple l => "(" ++ join "," (items l) ++ ")"
  | VSet l => "{" ++ join "," (sort_s (items l)) ++ "}"
  | VFrozenSet l => "F{" ++ join "," (sort_s (items l)) ++ "}"
  | VDict kvs => "D{" ++ join "," ((fix go (l : list (pv * pv)) {struct l} : list string :=
                     match l with [] => [] | (k, x) :: r => (show_pv k ++ "=" ++ show_pv x) :: go r end) kvs) ++ "}"
  | VIter _ => "IT" | VObj n => "O" ++ show_nat n
  end.
Definition show_te (t : telem) : string :=
  match t with Idx n => show_nat n | Key (VInt z) => show_Z z | Key k => show_pv k | ItemKey k => "K(" ++ show_pv k ++ ")" end.
Definition show_cls (c : ecls) : string :=
  match c with TypeLE => "T" | ExcludedLE => "Ex" | ValueLE => "V" | BadVariantLE => "B" | NoReqItemsLE => "NI"
  | ExtraItemsLE => "EI" | UnionLE => "U" | AggLE => "A" | PlainLE => "P" end.
Fixpoint show_err (e : err) {struct e} : string :=
  match e with
  | LE c tr inp subs =>
      show_cls c ++ "@" ++ join "/" (map show_te tr) ++
      match inp with Some v => "#" ++ show_pv v | None => "" end ++
      match c with
      | UnionLE | AggLE =>
          "<" ++ join ";" ((fix go (l : list err) {struct l} : list string :=
                              match l with [] => [] | x :: r => show_err x :: go r end) subs) ++ ">"
      | _ => ""
      end
  end.
Definition show_res (r : res) : string :=
  match r with Ok v => "OK " ++ show_pv v | Err e => "ER " ++ show_err e | Exn _ => "X" end.
Definition md_of (n : nat) : mode := match n with 0 => Disable | 1 => First | _ => All end.
(* the user-supplied loader of the harness: int passes, str raises ValueError (not a LoadError), the rest TypeLoadError *)
Definition BOOM (n : nat) (v : pv) : res := match v with VInt _ => Ok v | VStr _ => Exn XValue | _ => leaf TypeLE v end.
"""


# ----------------------------------------------------------------------------------------------------------------------
# shared correspondence runner for the load model

MODES = ["DISABLE", "FIRST", "ALL"]
_RETORTS = {}


def retort(sc, mode):
    from adaptix import DebugTrail, Retort
    key = (sc, mode)
    if key not in _RETORTS:
        from adaptix import loader
        _RETORTS[key] = Retort(strict_coercion=sc, debug_trail=getattr(DebugTrail, mode), recipe=[loader(Boom, boom_loader)])
    return _RETORTS[key]


def correspond(rep, pid, cases, max_report=6):
    """cases: list of (mode index, sc, type, datum). Returns (library outcomes, list of (index, model outcome))."""
    from lib import CoqEval
    expected, coq_cases = [], []
    for mi, sc, t, v in cases:
        o = run_load(retort(sc, MODES[mi]), t, v)
        expected.append(o)
        coq_cases.append((f"({mi}, {'true' if sc else 'false'}, {coq_ty(t)}, {coq_val(v)})", o))
    header = SHOW_HEADER + ("Definition run (c : nat * bool * ty * pv) : string := "
                            "match c with (m, sc, t, v) => show_res (load BOOM (md_of m) sc t v) end.\n")
    ce = CoqEval(pid, header, "run", shard=500)
    bad = ce.compare(coq_cases)
    for k, err in ce.errors:
        rep.violation("coq-eval-failed", "correspondence-diff", {"shard": k, "coq_error": err}, no_input=True)
    seen = set()
    for idx, got in bad:
        mi, sc, t, v = cases[idx]
        sig = f"diff:{MODES[mi]}:{'strict' if sc else 'lax'}:{t[0]}:{expected[idx][:6].strip()}->{got[:6].strip()}"
        if sig in seen or len(seen) >= max_report:
            continue
        seen.add(sig)
        rep.violation(sig, "correspondence-diff",
                      {"type": t, "strict_coercion": sc, "datum": v, "mode": MODES[mi],
                       "library": expected[idx], "model": got,
                       "how": "the model outcome is what the theorems of Props/ are about"})
    return expected, bad


def detuple(x):
    if isinstance(x, list):
        if x and isinstance(x[0], str) and len(x[0]) > 1 and x[0][0] in "TVLK" and x[0][1].isalpha() and x[0][1].isupper() is False or \
                (x and isinstance(x[0], str) and x[0] in ("TInt", "TFloat", "TBool", "TStr", "TNone", "TAny", "TLit", "TIter",
                                                         "TTuple", "TDict", "TOpt", "TUnion", "TUser", "VNone", "VBool", "VInt", "VFloat",
                                                         "VStr", "VBytes", "VList", "VTuple", "VSet", "VFrozenSet", "VDict",
                                                         "VIter", "VObj", "LInt", "LBool", "LStr")):
            return tuple(detuple(y) for y in x)
        return [detuple(y) for y in x]
    return x


def fix_val(v):
    """JSON turned the pairs of a dict datum into lists"""
    if not isinstance(v, tuple):
        return v
    if v[0] == "VDict":
        return ("VDict", [(fix_val(tuple(p)[0]) if isinstance(p, (list, tuple)) else p, fix_val(tuple(p)[1])) for p in v[1]])
    if v[0] in ("VList", "VTuple", "VSet", "VFrozenSet", "VIter"):
        return (v[0], [fix_val(x) for x in v[1]])
    return v


def replay_case(rep, body):
    if "type" not in body:
        print("replay names a broken obligation, not an input:", body.get("what"))
        rep.violation(body["signature"], body["kind"], body, no_input=True)
        return None
    t, v = detuple(body["type"]), fix_val(detuple(body["datum"]))
    outs = {(sc, m): run_load(retort(sc, m), t, v) for sc in (True, False) for m in MODES}
    for k, o in outs.items():
        print(k, o)
    return t, v, outs


def proof_problems(rep, pid, proof):
    if not proof["ok"]:
        found = bool(rep.violations)
        for kind, text in proof["problems"]:
            rep.violation(f"{kind}-broken", "proof-broken" if kind == "proof" else kind,
                          {"what": f"{kind} stage failed for {pid}", "text": text}, no_input=not found)
