import ast
from pathlib import Path

from . import table

SRC = Path("/repo/src/adaptix/_internal")
