"""Fail-closed translators: each entry re-reads /repo's current source and returns the text of coq/Generated/<name>.v.
An AST shape a translator does not recognise raises (never guesses); lib.translate_all then replaces the table by a
file that does not compile, so every theorem that depends on it stops checking."""
TABLES = {}


def table(name):
    def deco(fn):
        TABLES[name] = fn
        return fn
    return deco


from . import tables  # noqa: E402,F401
