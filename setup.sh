#!/bin/bash
# Run once after a fresh restore: regenerate the tables from /repo and build the whole Coq development (full .vo).
cd "$(dirname "$0")"
export PYTHONPATH="/repo/src:$PWD/harness" PYTHONHASHSEED=0 PYTHONDONTWRITEBYTECODE=1
/venv/bin/python - <<'PY' 2> >(grep -v conda.cli.condarc >&2)
import lib, sys
with lib.Lock():
    errs = lib.translate_all()
    bad = lib.gate()
    ok, out = lib.build()
    print(out[-1500:])
    print("translator errors:", errs, "gate:", bad, "build ok:", ok)
    sys.exit(0 if ok and not bad else 1)
PY
